"""Run TLC and parse what it says.  TLC is generator and judge; nothing here decides a property."""
import os, re, subprocess, shutil, tempfile, time, json

JAR = "/opt/veriftools/tla/tla2tools.jar:/opt/veriftools/tla/CommunityModules-deps.jar"
SPEC = os.path.join(os.path.dirname(os.path.dirname(os.path.abspath(__file__))), "spec")


class TLCError(Exception):
    pass


class TLCResult:
    def __init__(self, out, wall):
        self.out, self.wall = out, wall
        m = re.findall(r"(\d+) states generated, (\d+) distinct states found", out)
        self.generated = int(m[-1][0]) if m else 0
        self.distinct = int(m[-1][1]) if m else 0
        m = re.search(r"The depth of the complete state graph search is (\d+)", out)
        self.depth = int(m.group(1)) if m else 0
        self.ok = "Model checking completed. No error has been found." in out or \
                  "Finished computing initial states" in out and "Error:" not in out
        self.invariant_violated = re.findall(r"Invariant (\w+) is violated", out)
        self.action_violated = re.findall(r"Action property (\w+) is violated", out)
        self.property_violated = "Temporal properties were violated" in out or bool(self.action_violated)
        self.deadlock = "Deadlock reached" in out

    def printed(self, tag):
        """All values printed with PrintT(<<tag, v>>): returns list of raw TLA+ value strings."""
        res = []
        s = self.out
        for m in re.finditer(r'<<\s*"%s"\s*,' % re.escape(tag), s):
            j = m.start()
            depth, k, instr = 0, j, False
            while k < len(s):
                c = s[k]
                if instr:
                    if c == "\\":
                        k += 1
                    elif c == '"':
                        instr = False
                elif c == '"':
                    instr = True
                elif s.startswith("<<", k):
                    depth += 1; k += 1
                elif s.startswith(">>", k):
                    depth -= 1; k += 1
                    if depth == 0:
                        break
                k += 1
            res.append(s[m.end():k - 1].strip())
        return res

    def coverage(self):
        """action name -> (distinct, total) from -coverage output"""
        cov = {}
        for m in re.finditer(r"<(\w+) line \d+, col \d+ to line \d+, col \d+ of module (\w+)>: (\d+):(\d+)", self.out):
            cov[m.group(1)] = (int(m.group(3)), int(m.group(4)))
        return cov


def run(module, cfg=None, env=None, workers=16, timeout=900, extra=(), coverage=False, deadlock=True, simulate=None, depth=None, seed=None):
    """Run TLC on spec/<module>.tla with spec/<cfg>.  env: dict of IOEnv variables."""
    cfg = cfg or module + ".cfg"
    meta = tempfile.mkdtemp(prefix="tlcmeta_")
    cmd = ["java", "-XX:+UseParallelGC", "-Xmx6g", "-Xss128m", "-cp", JAR, "tlc2.TLC",
           "-workers", str(workers), "-metadir", meta, "-noGenerateSpecTE", "-config", cfg]
    if not deadlock:
        cmd.append("-deadlock")
    if coverage:
        cmd += ["-coverage", "1"]
    if simulate:
        cmd += ["-simulate", simulate]
    if depth:
        cmd += ["-depth", str(depth)]
    if seed is not None:
        cmd += ["-seed", str(seed)]
    cmd += list(extra) + [module + ".tla"]
    e = dict(os.environ)
    e.update({k: str(v) for k, v in (env or {}).items()})
    t0 = time.time()
    try:
        p = subprocess.run(cmd, cwd=SPEC, env=e, stdout=subprocess.PIPE, stderr=subprocess.STDOUT, timeout=timeout, text=True)
        out = p.stdout
    except subprocess.TimeoutExpired as ex:
        subprocess.run(["pkill", "-f", meta], check=False)
        raise TLCError("TLC timeout on %s/%s" % (module, cfg)) from ex
    finally:
        shutil.rmtree(meta, ignore_errors=True)
    r = TLCResult(out, time.time() - t0)
    r.cmd = " ".join(cmd)
    return r


def must_pass(r, what):
    if not r.ok or r.invariant_violated or r.property_violated or "Error:" in r.out:
        tail = "\n".join(r.out.splitlines()[-40:])
        raise TLCError("TLC failed on %s:\n%s" % (what, tail))
    return r


# ---- parsing TLA+ values printed by TLC (tuples, sets, records, strings, ints, booleans) ----
def parse_value(s):
    v, i = _pv(s, 0)
    return v


def _ws(s, i):
    while i < len(s) and s[i].isspace():
        i += 1
    return i


def _pv(s, i):
    i = _ws(s, i)
    if s.startswith("<<", i):
        i += 2; items = []
        i = _ws(s, i)
        if s.startswith(">>", i):
            return items, i + 2
        while True:
            v, i = _pv(s, i); items.append(v); i = _ws(s, i)
            if s.startswith(">>", i):
                return items, i + 2
            assert s[i] == ",", s[i:i + 20]; i += 1
    if s[i] == "{":
        i += 1; items = []
        i = _ws(s, i)
        if s[i] == "}":
            return items, i + 1
        while True:
            v, i = _pv(s, i); items.append(v); i = _ws(s, i)
            if s[i] == "}":
                return items, i + 1
            assert s[i] == ",", s[i:i + 20]; i += 1
    if s[i] == "[":
        i += 1; rec = {}
        while True:
            i = _ws(s, i)
            m = re.match(r"(\w+)\s*\|->", s[i:])
            assert m, s[i:i + 30]
            i += m.end()
            v, i = _pv(s, i); rec[m.group(1)] = v; i = _ws(s, i)
            if s[i] == "]":
                return rec, i + 1
            assert s[i] == ",", s[i:i + 20]; i += 1
    if s[i] == '"':
        j = i + 1; buf = []
        while s[j] != '"':
            if s[j] == "\\":
                j += 1
            buf.append(s[j]); j += 1
        return "".join(buf), j + 1
    m = re.match(r"-?\d+", s[i:])
    if m:
        return int(m.group(0)), i + m.end()
    m = re.match(r"TRUE|FALSE", s[i:])
    if m:
        return m.group(0) == "TRUE", i + m.end()
    m = re.match(r"\w+", s[i:])
    return m.group(0), i + m.end()
