"""Concretisation (abstract case -> library objects) and projection (library objects -> abstract values)."""
import numpy as np

SRC = "cell-7.swc"      # every tree the executors build names a source file: results must not be keyed by it (several trees share it)


def vid(c):
    """variant selector of a case: a fixed scramble of its number in the run that produced it (the number is kept when the case is replayed).
    TLC writes its cases in sorted order, so the raw number runs in step with the case's own fields (every third case has the same mode, ...);
    choosing variants by `number % k` then ties a variant to a field value and whole combinations never occur.  The scramble (two rounds of
    multiply / xor-shift on 32 bits, a bijection) makes `vid(c) % k` behave like an independent draw while staying reproducible."""
    v = int(c.get("vid", c["cid"])) & 0xFFFFFFFF
    v = (v * 2654435761) & 0xFFFFFFFF
    v ^= v >> 15
    v = (v * 2246822519) & 0xFFFFFFFF
    v ^= v >> 13
    return v


def pick(c, salt, n):
    """a variant choice in 0..n-1 that depends on the case's number through a hash (independent of the case's own fields and of other choices,
    unlike vid % n, which can run in step with the generator's enumeration order)"""
    import zlib
    return zlib.crc32(("%d:%s" % (vid(c), salt)).encode()) % n


def mk_tree(P, attr=None, xs=None, extra=None, unit=1.0, offset=(0.0, 0.0, 0.0)):
    """Tree from a topology P (parent ids) and per-node <<type, y, z, r>>; x carries the node's identity tag 100+i."""
    from swcgeom.core import Tree
    n = len(P)
    kw = {}
    if attr is not None:
        kw["type"] = np.array([a[0] for a in attr], dtype=np.int32)
        kw["y"] = np.array([a[1] * unit + offset[1] for a in attr], dtype=np.float32)
        kw["z"] = np.array([a[2] * unit + offset[2] for a in attr], dtype=np.float32)
        kw["r"] = np.array([a[3] * unit for a in attr], dtype=np.float32)
    xs = xs if xs is not None else [100 + i for i in range(n)]
    kw["x"] = np.array([x * unit + offset[0] for x in xs], dtype=np.float32)
    if extra:
        kw.update(extra)
    return Tree(n, source=SRC, id=np.arange(n, dtype=np.int32), pid=np.array(P, dtype=np.int32), **kw)


def snapshot(t):
    return {k: np.array(v, copy=True) for k, v in t.ndata.items()}, list(t.comments), t.source


def changed(t, snap):
    nd, com, src = snap
    if set(nd) != set(t.ndata) or com != list(t.comments) or src != t.source:
        return 1
    for k, v in nd.items():
        w = t.ndata[k]
        if w.shape != v.shape or w.dtype != v.dtype or not np.array_equal(w, v, equal_nan=(w.dtype.kind == 'f')):
            return 1
    return 0


def project_tagged(t, unit=1.0):
    """(map new->old via the x tag, pid list, <<type,y,z,r>> per node) as integers."""
    x = np.asarray(t.x(), dtype=np.float64) / unit
    mp = [int(round(v)) - 100 for v in x]
    def q(v):
        return [int(round(float(a) / unit)) for a in v]
    rattr = [list(a) for a in zip([int(v) for v in t.type()], q(t.y()), q(t.z()), q(t.r()))]
    return mp, [int(p) for p in t.pid()], rattr


def ids_ok(t):
    return [int(i) for i in t.id()] == list(range(len(t.id())))


def place_by_edge_len(P, el):
    """positions such that |pos[i]-pos[parent]| = el[i] exactly (axis steps)"""
    n = len(P)
    pos = [None] * n
    order = sorted(range(n), key=lambda i: depth(P, i))
    for i in order:
        if P[i] == -1:
            pos[i] = (0.0, 0.0, 0.0)
        else:
            p = list(pos[P[i]])
            p[i % 3] += float(el[i]) * (1 if i % 2 else -1)
            pos[i] = tuple(p)
    return pos


def depth(P, i):
    d = 0
    while P[i] != -1:
        i = P[i]; d += 1
    return d


def default_attr(n):
    return [[2 + i % 3, (7 * i) % 5, (3 * i) % 4, 1 + i % 3] for i in range(n)]


def mk_tree_len(P, el, attr=None):
    """tree whose edge into node i has exact length el[i]; identity carried by the extra column 'tag'"""
    from swcgeom.core import Tree
    n = len(P)
    attr = attr or default_attr(n)
    pos = place_by_edge_len(P, el)
    return Tree(n, source=SRC, id=np.arange(n, dtype=np.int32), pid=np.array(P, dtype=np.int32),
                type=np.array([a[0] for a in attr], dtype=np.int32),
                x=np.array([p[0] for p in pos], dtype=np.float32), y=np.array([p[1] for p in pos], dtype=np.float32),
                z=np.array([p[2] for p in pos], dtype=np.float32), r=np.array([a[3] for a in attr], dtype=np.float32),
                tag=np.arange(n, dtype=np.int32) + 100), pos


def pre_state(P, k):
    """a topology that differs from P in the parent of one node (chosen by k), or None: (P', i) with P'[i] != P[i], P' well formed"""
    n = len(P)
    if n < 3:
        return None
    i = 1 + k % (n - 1)
    below = {i}
    grew = True
    while grew:
        grew = False
        for j in range(n):
            if P[j] in below and j not in below:
                below.add(j); grew = True
    cand = [j for j in range(n) if j not in below and j != P[i]]
    if not cand:
        return None
    Q = list(P); Q[i] = cand[k % len(cand)]
    return Q, i


def via_edit(c, P, build, warm):
    """history variant of a case (one in four): build the tree with one node hanging elsewhere, run the queries (warm), then re-parent that node in
    place through its handle so that the tree is the case's tree; anything the library remembered about the earlier shape is now stale"""
    k = vid(c)
    ps = pre_state(P, k // 4) if k % 4 == 3 else None
    if ps is None:
        return build(P)
    Q, i = ps
    t = build(Q)
    warm(t)
    if (k // 4) % 2:
        t = t.copy()
    t.node(i).pid = P[i]
    return t


def other_trees():
    """a few fixed trees a transform object is applied to before the case's tree (one case in three): objects must not carry state between calls"""
    a = mk_tree_len([-1, 0, 1, 1, 0, 4, 4], [1, 2, 1, 3, 1, 1, 2])[0]
    b = mk_tree_len([-1, 0], [1, 1])[0]
    return [a, b]


def reused(tf, c, t=None):
    """histories for transform objects (two cases in three): the object was applied to other trees before, or to the case's own tree object while
    that tree had other coordinates and radii (it is perturbed in place, the transform applied, and the original values written back in place);
    either way the call that is judged must behave like the first call of a fresh object"""
    k = vid(c) % 3
    if k == 2:
        for o in other_trees():
            try:
                tf(o)
            except Exception:        # noqa: BLE001 - only the call on the case's own tree is judged
                pass
    elif k == 1 and t is not None and hasattr(t, "ndata"):
        keep = {key: np.array(t.ndata[key], copy=True) for key in ("x", "y", "z", "r") if key in t.ndata}
        for j, key in enumerate(keep):
            t.ndata[key][...] = t.ndata[key] * (2 if key == "r" else 1) + (0 if key == "r" else 3.5 + j)
        try:
            tf(t)
        except Exception:            # noqa: BLE001
            pass
        for key, v in keep.items():
            t.ndata[key][...] = v
    return tf


def outlives(tf, x, c, others=None):
    """what a call returned must outlive later calls of the same object (one case in two: the object is applied to other inputs before the
    result is read; a transform that hands out a buffer it re-uses shows up)"""
    r = tf(x)
    if vid(c) % 2 == 0:
        for o in (others if others is not None else other_trees()):
            try:
                tf(o)
            except Exception:        # noqa: BLE001 - only the first result is judged
                pass
    return r


def other_branches():
    return list(other_trees()[0].get_branches())


def scribble(obj):
    """overwrite a result in place (every column of a tree / table): a later call with the same input must not hand out, or depend on, this object's storage"""
    if hasattr(obj, "ndata"):
        cols = list(obj.ndata.values())
    else:                                   # a pandas table
        cols = [obj[k].values for k in obj.columns]
    for a in cols:
        try:
            a[...] = -7 if a.dtype.kind in "iu" else -12345.5
        except (ValueError, TypeError):     # read-only column: nothing to scribble
            pass
