"""C16 — resampling and smoothing keep the neuron's shape (spec/Resample.tla)."""
import numpy as np
from harness import lib

RULE = ("trees = every parents-first topology up to the bound x every assignment of axis-parallel offsets (lengths 0-3; zero-length segments inside "
        "branches; no two of root / furcations / tips coincide) with varying radii and every root type; spacings {1/2, 3/4, 1, 3/2, 2, 10} with and "
        "without last-gap adjustment, target point counts 2-6, smoothing windows 1-6 (cycled); operations: IsometricResampler on the tree, "
        "BranchTreeAssembler on the unresampled branch tree, BranchLinearResampler / BranchIsometricResampler / BranchConvSmoother on a branch, "
        "TreeSmoother; plus zero-length and single-segment branches; non-trivial = at least one furcation; distinct by (tree, parameters)")
Q = 10000


# placements (length unit, offset): as given; atlas coordinates (exact in single precision: sibling tips one unit apart at several thousand); a unit
# of 10.1 with the origin inside the tree (branches cross the coordinate planes; nothing is exactly representable)
PLACES = [(1.0, (0.0, 0.0, 0.0)), (1.0, (4101.0, -3077.0, 5113.0)), (10.1, (-25.3, -31.7, -20.9))]


# atlas coordinates with quarters and eighths: at half-unit lattice steps every node, and every point resampled at a whole lattice step, is still exact
FAR = (0.5, (12011.25, -9077.75, 15113.125))


def place_of(c):
    return FAR if c.get("far") else PLACES[lib.vid(c) % 3]


def mk_tree(c, pl=None):
    from swcgeom.core import Tree
    P, pos, rad = c["P"], c["pos"], c["rad"]
    n = len(P)
    u, off = pl or PLACES[0]
    ty = [c["rtype"]] + [3] * (n - 1)
    return Tree(n, source=lib.SRC, id=np.arange(n, dtype=np.int32), pid=np.array(P, dtype=np.int32), type=np.array(ty, dtype=np.int32),
                x=np.array([p[0] * u + off[0] for p in pos], dtype=np.float32), y=np.array([p[1] * u + off[1] for p in pos], dtype=np.float32),
                z=np.array([p[2] * u + off[2] for p in pos], dtype=np.float32), r=np.array([v * u for v in rad], dtype=np.float32))


def qpts(obj, pl=(1.0, (0.0, 0.0, 0.0))):
    u, off = pl
    return [[int(round((float(v) - o) / u * Q)) for v, o in zip(row, off + (0.0,))] for row in zip(obj.x(), obj.y(), obj.z(), obj.r())]


def tree_result(fn, pl):
    try:
        t = fn()
        seg = t.get_segments()
        length = float(t.length()) / pl[0]
        return {"err": "", "pid": [int(v) for v in t.pid()], "pts": qpts(t, pl), "rtype": int(t.type()[0]), "len": int(round(length * Q)),
                "idsok": int([int(v) for v in t.id()] == list(range(len(t.id()))))}
    except Exception as e:      # noqa: BLE001 - an exception is an observation
        return {"err": type(e).__name__, "pid": [-1], "pts": [[0, 0, 0, 0]], "rtype": 0, "len": 0, "idsok": 0}


def pts_result(fn, pl):
    try:
        return {"err": "", "pts": qpts(fn(), pl)}
    except Exception as e:      # noqa: BLE001
        return {"err": type(e).__name__, "pts": [[0, 0, 0, 0]]}


def execute(c):
    from swcgeom.core import BranchTree
    from swcgeom.transforms import IsometricResampler, BranchLinearResampler, BranchConvSmoother, TreeSmoother
    from swcgeom.transforms.branch import BranchIsometricResampler
    from swcgeom.transforms.branch_tree import BranchTreeAssembler
    pl = place_of(c)
    if pl[0] != 1.0 and pl is not FAR:
        # with an inexact unit a branch whose length is a whole number of spacings is a floating-point tie (one point more or less): such trees
        # keep the exact placement
        lens = [int(round(float(b.length()))) for b in mk_tree(c).get_branches()]
        if any(L > 0 and (L * c["sp"][1]) % c["sp"][0] == 0 for L in lens):
            pl = PLACES[0]
    t = mk_tree(c, pl)
    d = c["sp"][0] / c["sp"][1] * pl[0]
    adj = bool(c["adjust"])
    o = {}
    if "full" in c:
        # the case's table is the branch tree of the (bent) tree c["full"]: it is the BranchTree object itself that is resampled - along its own
        # straight edges, not along the branches it remembers
        from swcgeom.transforms import ToBranchTree
        bt = ToBranchTree()(mk_tree(dict(c["full"], rtype=c["rtype"]), pl))
        o["iso"] = tree_result(lambda: IsometricResampler(d, adjust_last_gap=adj)(bt), pl)
    else:
        o["iso"] = tree_result(lambda: lib.outlives(lib.reused(IsometricResampler(d, adjust_last_gap=adj), c, t), t, c), pl)
    o["same"] = tree_result(lambda: BranchTreeAssembler()(BranchTree.from_tree(t)), pl)
    brs = t.get_branches()
    b1 = min(brs, key=lambda b: int(b.origin_id()[-1]))
    ob = lib.other_branches()           # the same resampler / smoother object goes on to other branches before its first result is read
    o["blin"] = pts_result(lambda: lib.outlives(BranchLinearResampler(c["n"]), b1, c, ob), pl)
    o["biso"] = pts_result(lambda: lib.outlives(BranchIsometricResampler(d, adjust_last_gap=adj), b1, c, ob), pl)
    ts = tree_result(lambda: lib.outlives(lib.reused(TreeSmoother(c["win"]), c, t), t, c), pl)
    o["tsm"] = ts
    o["bsm"] = pts_result(lambda: lib.outlives(BranchConvSmoother(c["win"]), b1, c, ob), pl)
    return o


def keyfn(c, o, why):
    return why


def nontrivial(c):
    P = c["P"]
    return any(P.count(i) >= 2 for i in range(len(P)))


def extra_cases(ctx, count):
    """single chains with zero-length / single-segment branches, longer branches, finer spacings"""
    rng = ctx.rng
    out = []
    for k in range(count):
        n = rng.randint(2, 9)
        P = [-1] + list(range(n - 1))
        vecs = [(0, 0, 0)] + [rng.choice([(1, 0, 0), (0, 2, 0), (0, 0, -3), (0, 0, 0), (0, 1, 0), (2, 0, 0)]) for _ in range(n - 1)]
        if k % 7 == 0:
            vecs = [(0, 0, 0)] * n if k % 14 else vecs
        pos = [[0, 0, 0]]
        for i in range(1, n):
            pos.append([pos[-1][j] + vecs[i][j] for j in range(3)])
        if pos[0] == pos[-1] and any(p != pos[0] for p in pos):
            pos[-1][0] += 1                     # a closed loop would make root and tip coincide
        if all(p == pos[0] for p in pos) and n > 2:
            P, pos, n = [-1, 0], pos[:2], 2     # zero-length branch: keep it to one segment
        rad = [2]
        for i in range(1, n):
            rad.append(rad[-1] if pos[i] == pos[i - 1] else rng.randint(1, 4))
        if pos[0] == pos[-1]:
            continue                            # root and tip coincide: outside the judged domain (see assumptions)
        sp = rng.choice([[1, 2], [1, 1], [3, 2], [2, 1], [1, 4], [5, 2], [10, 1]])
        out.append({"kind": "tree", "P": P, "pos": pos, "rad": rad, "sp": sp, "adjust": k % 3 != 0, "rtype": 1 + k % 4, "win": 1 + k % 7, "n": 2 + k % 6})
    # a comb far from the origin: a spine with a twig at every node (sibling ends two lattice steps apart), resampled at the lattice step; which branch
    # ends at which node must not be decided by single-precision cancellation
    m = 20
    P = [-1] + [(0 if j == 1 else (j - 2 if j % 2 == 1 else j - 1)) for j in range(1, 2 * m + 1)]
    pos = [[0, 0, 0]]
    for k in range(1, m + 1):
        pos.append([2 * k, 0, 0]); pos.append([2 * k, 2 if k % 2 else -2, 0])
    out.append({"kind": "tree", "P": P, "pos": pos, "rad": [1] * len(P), "sp": [1, 1], "adjust": True, "rtype": 1, "win": 3, "n": 3, "far": 1})
    return out


def branch_tree_cases(ctx, count):
    """trees whose branches bend by 3-4-5 steps; the case handed to the judge is the table of their branch tree (root, furcations, tips joined by
    straight edges of integer length), read from the library's own ToBranchTree (whose correctness is C08's subject)"""
    from swcgeom.transforms import ToBranchTree
    rng = ctx.rng
    out = []
    BENDS = [[(3, 0, 0), (0, 4, 0)], [(0, 4, 0), (3, 0, 0)], [(0, 0, 4), (0, 3, 0)], [(4, 0, 0), (0, 0, 3)], [(0, 3, 0), (4, 0, 0)], [(5, 0, 0)], [(0, 0, -5)]]
    for k in range(count):
        P, pos, rad = [-1], [[0, 0, 0]], [2]

        def grow(start, steps, sign):
            cur = start
            for st in steps:
                P.append(cur); pos.append([pos[cur][j] + sign * st[j] for j in range(3)]); rad.append(1 + (len(P) % 3)); cur = len(P) - 1
            return cur
        fork = grow(0, BENDS[k % len(BENDS)], 1)                     # the stem: a 3-4-5 bend (or a straight run of 5), chord length 5
        if k % 3:                                                    # two branches behind it, each bent (chords of length 5 again)
            grow(fork, BENDS[(k + 1) % 5], 1)
            grow(fork, BENDS[(k + 2) % 5], -1)
        full = {"kind": "tree", "P": P, "pos": pos, "rad": rad}
        bt = ToBranchTree()(mk_tree(dict(full, rtype=1)))
        btpos = [[int(round(float(v))) for v in row] for row in zip(bt.x(), bt.y(), bt.z())]
        if len(set(map(tuple, btpos))) != len(btpos):
            continue
        sp = rng.choice([[1, 1], [1, 2], [3, 2], [2, 1], [5, 2]])
        out.append({"kind": "tree", "P": [int(v) for v in bt.pid()], "pos": btpos, "rad": [int(round(float(v))) for v in bt.r()], "sp": sp,
                    "adjust": k % 3 != 0, "rtype": 1, "win": 3, "n": 3, "full": full, "vid": 3 * k})          # (vid = 3k: exact placement)
    return out


def run(ctx):
    cases, path = ctx.gen("Gen_Resample", "Gen_Resample.%s.cfg" % ctx.tier)
    ctx.run_cases("enumerated", cases, path, execute, "Judge_Resample", keyfn, nontrivial)
    ec = extra_cases(ctx, 150 if ctx.tier == "quick" else 3000)
    p = ctx.write_cases("chains", ec)
    ctx.run_cases("chains", ec, p, execute, "Judge_Resample", keyfn, lambda c: len(c["P"]) >= 3)
    bc = branch_tree_cases(ctx, 40 if ctx.tier == "quick" else 600)
    p = ctx.write_cases("branch-tree-input", bc)
    ctx.run_cases("branch-tree-input", bc, p, execute, "Judge_Resample", keyfn, lambda c: len(c["P"]) >= 3)
    ctx.assumptions += ["segments are axis-parallel with integer lengths so that every resampled point is an exact rational point; spacings are dyadic or small rationals",
                        "no two of root / furcations / tips coincide (connectivity between them is read off positions); radii are equal across zero-length segments",
                        "for smoothing only what the statement fixes is judged (count, connectivity, radii, end points / critical nodes), not the smoothed interior",
                        "points are compared in units of 1e-4 with tolerance 4 units"]
    return ctx.finish(rule=RULE)


def replay(ctx, rec):
    c = rec["case"]
    p = ctx.write_cases("replay", [c])
    ctx.run_cases("replay", [c], p, execute, "Judge_Resample", keyfn)
    return ctx.finish(rule="replay of one recorded case")
