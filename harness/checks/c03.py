"""C03 — every tree operation returns a well-formed tree and leaves its inputs untouched (spec/TreeOps.tla, MC_TreeHeap.tla)."""
import io, zlib
import numpy as np
from harness import lib

RULE = ("behaviours = every pipeline of 2 operation instances (49 instances: every listed operation with selector-resolved arguments) on every "
        "start topology of the configured sizes, plus TLC-randomised pipelines of 6-10 instances on four larger trees; one operation in four is carried out twice with the first result overwritten in place in between; after every operation an "
        "attribute is written through a node handle of the result or of a source; the projected heap after every step is validated by "
        "Trace_TreeOps; non-trivial = pipeline has at least two different operations; distinct by (start tree, pipeline)")


def digest(t):
    h = 0
    for k in sorted(t.ndata.keys()):
        v = np.ascontiguousarray(t.ndata[k])
        h = zlib.crc32(("%s|%s|%s|" % (k, v.dtype, v.shape)).encode(), h)
        h = zlib.crc32(v.tobytes(), h)
    h = zlib.crc32(repr(list(t.comments)).encode(), h)
    h = zlib.crc32(repr(t.source).encode(), h)
    for a in branch_buffers(t):          # a branch tree's content includes the branches it remembers
        h = zlib.crc32(("%s|%s|" % (a.dtype, a.shape)).encode(), h)
        h = zlib.crc32(np.ascontiguousarray(a).tobytes(), h)
    return int(h & 0x3FFFFFFF)


def branch_buffers(t):
    """the column buffers behind the branches a BranchTree remembers (in a fixed order); empty for a plain tree"""
    out = []
    brs = getattr(t, "branches", None)
    if isinstance(brs, dict):
        for key in sorted(brs):
            for b in brs[key]:
                owner = getattr(b, "attach", None)
                nd = getattr(owner, "ndata", None)
                if isinstance(nd, dict):
                    out += [nd[k] for k in sorted(nd)]
    return out


def overlap(a, b):
    """do two buffers share a byte?  decided exactly (numpy solves the overlap problem); the effort is bounded, because the exact problem is
    exponential in the worst case and runs inside C, where the per-case timeout cannot interrupt it: a pair too hard to decide within the
    bound has overlapping extents and is taken to overlap (contiguous columns and columns of one 2-d block are decided at once)"""
    try:
        return bool(np.shares_memory(a, b, max_work=200000))
    except Exception:        # numpy.exceptions.TooHardError
        return bool(np.may_share_memory(a, b))


class Heap:
    """projection of storage: class ids such that two buffers get the same id iff np.shares_memory says they overlap"""

    def __init__(self):
        self.arrs, self.lists, self.n = [], {}, 0

    def classes(self, t):
        out = []
        for a in [t.ndata[k] for k in t.ndata] + branch_buffers(t):
            cid = None
            for b, c in self.arrs:
                if overlap(a, b):
                    cid = c
                    break
            if cid is None:
                self.n += 1
                cid = self.n
            self.arrs.append((a, cid))
            out.append(cid)
        key = id(t.comments)
        if key not in self.lists:
            self.n += 1
            self.lists[key] = (self.n, t.comments)      # keep the list alive so ids are not recycled
        out.append(self.lists[key][0])
        return sorted(set(out))


def apply_op(inst, objs, usable):
    """returns (op, arg, srcs(1-based), result) or None when the instance is not admissible for the current tree"""
    from swcgeom.core import Tree, sort_tree, get_subtree, to_subtree, cut_tree, redirect_tree, cat_tree
    import swcgeom.transforms as T
    op, a, b = inst
    si = usable[-1]
    t = objs[si]
    n = len(t)
    srcs = [si + 1]
    arg = 0
    if op == "sort":
        r = sort_tree(t)
    elif op == "io":
        r = Tree.from_swc(io.StringIO(t.to_swc()))
    elif op == "io_sorted":
        r = Tree.from_swc(io.StringIO(t.to_swc()), sort_nodes=True)
    elif op == "translate_origin":
        r = T.TranslateOrigin()(t)
    elif op == "normalize":
        def degenerate(col):
            mx, big = float(np.max(col)), float(np.max(np.abs(col)))
            return not (mx > 1e-6 * big)
        if any(degenerate(t.ndata[k]) for k in ("x", "y", "z", "r")):
            # Normalizer divides every column by its maximum: a column whose maximum is 0, negative, or a rounding residue next to its other values
            # (1e-17 after a quarter turn) is outside its domain (it would yield NaN, or coordinates of 1e16)
            return None
        r = T.Normalizer()(t)
    elif op == "radius_reset":
        r = T.RadiusReseter(2.5)(t)
    elif op == "translate":
        r = T.Translate(1.5, -2.0, 3.25)(t)
    elif op == "scale":
        r = T.Scale(2.0, 0.5, 3.0, center="root" if a == 0 else "origin")(t)
    elif op == "rot90z":
        r = T.RotateZ(np.pi / 2)(t)
    elif op == "rotate":
        r = T.Rotate(np.array([2 / 3, 2 / 3, 1 / 3]), 0.7, center="root")(t)
    elif op == "smooth":
        r = T.TreeSmoother(a)(t)
    elif op == "resample":
        r = T.IsometricResampler(0.7 if a == 0 else 2.5)(t)
    elif op == "cut_type":
        if a not in [int(v) for v in t.type()]:
            return None
        r = T.CutByType(a)(t)
    elif op == "cut_order":
        r = T.CutByFurcationOrder(a)(t)
    elif op == "cut_shorttip":
        r = T.CutShortTipBranch(thre=1.5)(t)
    elif op == "compose":
        r = T.Transforms(T.Translate(1.0, 2.0, 3.0), T.CutByFurcationOrder(2), T.RadiusReseter(1.5))(t)
    elif op == "branch_tree":
        r = T.ToBranchTree()(t)          # a tree (root, furcations, tips) that also remembers its branches: later steps work on it like on any tree
    elif op == "subtree":
        arg = a % n
        r = get_subtree(t, arg) if b == 0 else t.node(arg).subtree()
    elif op == "remove":
        if n < 2:
            return None
        R = sorted({1 + a % (n - 1), 1 + b % (n - 1)})
        r = to_subtree(t, R)
    elif op == "cut_enter":
        def enter(nd, pv):
            d = 0 if pv is None else pv + 1
            return d, d >= a
        r = cut_tree(t, enter=enter)
    elif op in ("redirect_sorted", "redirect_unsorted"):
        arg = (n - 1 - a) % n
        r = redirect_tree(t, arg, sort=(op == "redirect_sorted"))
    elif op in ("cat", "cat_notranslate"):
        s2 = usable[b % len(usable)]
        t2 = objs[s2]
        srcs.append(s2 + 1)
        arg = a % n
        r = cat_tree(t, t2, arg, a % len(t2), translate=(op == "cat"))
    else:
        raise ValueError(op)
    return op, int(arg), sorted(set(srcs)), r


def execute(c):
    P = c["P"]
    t0 = lib.mk_tree(P, lib.default_attr(len(P)))
    t0.comments = ["start", " two "]
    heap = Heap()
    objs, usable = [t0], [0]
    out = {"dig0": digest(t0), "cells0": heap.classes(t0), "steps": []}
    steps = out["steps"]
    for k, inst in enumerate(c["pipe"]):
        try:
            res = apply_op(inst, objs, usable)
            if res is not None and (k + lib.vid(c)) % 4 == 1:
                lib.scribble(res[3])                     # the owner of a first result overwrites it in place ...
                res = apply_op(inst, objs, usable)       # ... and the same call is made again: it is this result that is recorded
        except Exception as ex:
            steps.append(["error", type(ex).__name__, inst[0]])
            break
        if res is None:
            continue
        op, arg, srcs, r = res
        objs.append(r)
        if op != "redirect_unsorted" or arg == 0:
            usable.append(len(objs) - 1)
        steps.append(["apply", op, arg, srcs, [int(p) for p in r.pid()], int(lib.ids_ok(r)), [digest(o) for o in objs], heap.classes(r)])
        # perturbation: assign through a node handle of the result or of a source
        target = len(objs) - 1 if (k + lib.vid(c)) % 2 == 0 else srcs[-1] - 1
        tt = objs[target]
        nd = tt.node((k + lib.vid(c)) % len(tt))
        col = ["x", "r", "type"][(k + lib.vid(c)) % 3]
        if col == "type":
            nd.type = int(nd.type) + 1
        elif col == "x":
            nd.x = float(nd.x) + 0.5
        else:
            nd.r = float(nd.r) + 0.25
        steps.append(["write", target + 1, [digest(o) for o in objs]])
    return out


def keyfn(c, o, why):
    return why


def nontrivial(c):
    return len({tuple(i) for i in c["pipe"]}) >= 2


def run(ctx):
    ctx.mc("MC_TreeHeap", "MC_TreeHeap.%s.cfg" % ctx.tier, deadlock=False,
           expect_actions=["DoCopy", "DoSubset", "DoCat", "DoWrite"])
    ctx.mc_expect_violation("MC_TreeHeap", "MC_TreeHeap.alias.cfg", "NoSharing", deadlock=False)
    ctx.mc_expect_violation("MC_TreeHeap", "MC_TreeHeap.inplace.cfg", "Pure", deadlock=False)
    cases, path = ctx.gen("Gen_TreeOps", "Gen_TreeOps.%s.cfg" % ctx.tier, seed=ctx.seed)
    ctx.run_cases("pipelines", cases, path, execute, "Trace_TreeOps", keyfn, nontrivial, per_case_timeout=(15 if ctx.tier == "quick" else 60))
    ctx.exhaustive = False
    ctx.assumptions += ["content equality is projected to a 30-bit CRC of every column's bytes, the comments and the source string",
                        "storage identity is projected with numpy.shares_memory over every column buffer plus the identity of the comments list",
                        "selectors are resolved modulo the current tree size (all admissible node arguments are reachable)",
                        "geometric content of results is decided by C05-C07/C12/C16, not here"]
    return ctx.finish(rule=RULE)


def replay(ctx, rec):
    c = rec["case"]
    p = ctx.write_cases("replay", [c])
    ctx.run_cases("replay", [c], p, execute, "Trace_TreeOps", keyfn)
    return ctx.finish(rule="replay of one recorded pipeline")
