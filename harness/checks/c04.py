"""C04 — tree traversal is structural recursion, at any depth (spec/StructRec.tla, MC_Traverse.tla, Trace_*.tla)."""
import os, json
import numpy as np
from harness import lib, core

RULE = ("traces = one per (topology, start node, callback mode) for every topology (all numberings) up to the bound, each through one of the "
        "three public entry points, recorded by token-returning callbacks (the leave callback also mutates the list it is handed; in a quarter of the traces the callbacks return None for some nodes, in another quarter - through the Tree entry points - the node handle they were called with) and validated "
        "event by event by Trace_StructRec; plus random trees of 50-500 nodes, random trees of 7e4-1.5e5 nodes under interleaved numberings (validated by the folded "
        "judge Trace_BigRec, which MC_BigRec checks against StructRec on every small tree) and chains of 2e4 (quick) / 1e5 (thorough) nodes validated by "
        "Trace_ChainRec; non-trivial = subtree of the start node has at least 3 nodes; distinct by (topology, start, mode)")


def record(P, start, mode, api, pre=None, ed=None, copy_after=False, nones=False, handles=False, negkey=False, forest=False):
    from swcgeom.core import Tree
    from swcgeom.core.swc_utils import traverse
    events, counter = [], [0]

    def nid(n):
        return int(n) if isinstance(n, (int, np.integer)) else int(n.id)

    def val(v):                  # what a handed-in value denotes when it is received: tokens as they are, node handles by the node they stand for
        return -1 if v is None else (v if isinstance(v, (int, np.integer)) else 1000 + int(v.id))

    def enter(n, pin):
        counter[0] += 1
        ret = None if (nones and nid(n) % 3 == 1) else counter[0]       # a callback may return nothing: that is a value like any other
        if handles:
            ret = n              # ... or the node handle it was called with (the Tree entry points hand out handles)
        events.append(["E", nid(n), val(pin), 1000 + nid(n) if handles else (-1 if ret is None else ret)])
        return ret

    def leave(n, cs):
        counter[0] += 1
        ret = None if (nones and nid(n) % 2 == 1) else counter[0]
        if handles:
            ret = n
        # (a list longer than any node's number of children is wrong as it stands: it is logged up to that length, so that a list that keeps growing
        # from call to call cannot make the record quadratic)
        events.append(["L", nid(n), [val(v) for v in cs[:maxdeg + 2]], 1000 + nid(n) if handles else (-1 if ret is None else ret)])
        cs.append(-5)            # a callback may do what it likes with the list it was handed
        return ret
    deg = np.bincount(np.array([p for p in (list(P) + list(pre if pre is not None else [])) if p >= 0] + [0], dtype=np.int64))
    maxdeg = int(deg.max())
    kw = {}
    if mode in ("enter", "both"):
        kw["enter"] = enter
    if mode in ("leave", "both"):
        kw["leave"] = leave
    n = len(P)
    ids, pids = np.arange(n, dtype=np.int32), np.array(P if pre is None else pre, dtype=np.int32)
    if pre is not None:
        # history: traverse the pre-state in every mode through both tree entry points, edit the parent of one node in place, traverse again
        t = Tree(n, source=lib.SRC, id=ids, pid=pids)
        quiet = [dict(enter=lambda n, p: 0), dict(leave=lambda n, cs: 0), dict(enter=lambda n, p: 0, leave=lambda n, cs: 0)]
        for q in quiet:
            t.traverse(**q); t.node(0).traverse(**q); t.traverse(root=start, **q)
            traverse((t.id(), t.pid()), **q)
        if copy_after:
            t = t.copy()
        t.node(ed[0]).pid = ed[1]
        if api == 0:
            ret = traverse((t.id(), t.pid()), root=start, **kw)
        else:
            ret = t.traverse(root=start, **kw) if api == 1 else (t[start - n] if negkey else t.node(start)).traverse(**kw)
    elif api == 0:
        if forest:
            # the table holds a second tree after the first (ids shifted by n): nothing of it may be visited
            ids = np.arange(2 * n, dtype=np.int32)
            pids = np.concatenate([pids, np.where(pids == -1, -1, pids + n)]).astype(np.int32)
        ret = traverse((ids, pids), root=start, **kw)
    else:
        t = Tree(n, source=lib.SRC, id=ids, pid=pids)
        # (the start node's handle may have been obtained with a negative key: tree[start - n] is the same node)
        ret = t.traverse(root=start, **kw) if api == 1 else (t[start - n] if negkey else t.node(start)).traverse(**kw)
    events.append(["R", val(ret)])
    return events


def execute(c):
    api = c.get("api", lib.pick(c, "api", 3))
    events = []
    try:
        events = record(c["P"], c["start"], c["mode"], api, c.get("pre"), c.get("ed"), lib.vid(c) % 2 == 1, nones=c.get("nones", lib.vid(c) % 4 == 2),
                        handles=(api != 0 and c.get("nones") is None and lib.vid(c) % 4 == 3), negkey=(lib.vid(c) % 2 == 0), forest=(lib.pick(c, "forest", 2) == 1 and c.get("pre") is None))
    except RecursionError:
        return {"events": [], "err": "RecursionError"}
    return {"events": events}


def keyfn(c, o, why):
    return "traverse-%s%s:%s" % (c["mode"], "-after-edit" if c and "pre" in c else "", why)


def nontrivial(c):
    P, s = c["P"], c["start"]
    cnt = 0
    for i in range(len(P)):
        j = i
        while j != -1 and j != s:
            j = P[j]
        cnt += (j == s)
    return cnt >= 3


def random_cases(ctx, count, lo, hi):
    rng = ctx.rng
    out = []
    for _ in range(count):
        n = rng.randint(lo, hi)
        perm = list(range(1, n)); rng.shuffle(perm)
        lab = [0] + perm
        style = rng.random()
        par = [-1] + [(rng.randrange(0, i) if rng.random() < style else i - 1) for i in range(1, n)]
        P = [-1] * n
        for i in range(1, n):
            P[lab[i]] = lab[par[i]]
        out.append({"P": P, "start": rng.choice([0, rng.randrange(n)]), "mode": rng.choice(["enter", "leave", "both"])})
    return out


def chain(ctx, n, start, api):
    """one deep chain, judged by the O(1)-state chain specialisation of StructRec"""
    P = [-1] + list(range(n - 1))
    try:
        ev = record(P, start, "both", api); err = ""
    except RecursionError:
        ev, err = [], "RecursionError"
    p = os.path.join(ctx.work, "chain.obs.ndjson")
    with open(p, "w") as f:
        f.write(json.dumps({"n": n, "start": start, "events": ev, "err": err}) + "\n")
    c = {"cid": 1, "P": "chain(%d)" % n, "start": start, "mode": "both", "api": api}
    n_ev, bad = ctx.judge("Trace_ChainRec", p, p, cfg="Trace_ChainRec.cfg")
    ctx.evaluations += 1
    ctx.nontrivial.add("chain-%d-%d-%d" % (n, start, api))
    if bad:
        ctx.failures.append({"stage": "chain", "key": keyfn(c, None, bad[0][1]), "why": bad[0][1], "case": {"chain": n, "start": start, "api": api},
                             "obs": {"events_consumed": n_ev, "err": err}, "judge": "Trace_ChainRec"})
    else:
        ctx.accepted += 1
        ctx.samples.append({"stage": "chain", "case": {"chain_nodes": n, "start": start, "api": api}, "observed": {"events": len(ev), "first": ev[:2], "last": ev[-2:]}})


def big_cases(ctx, sizes):
    """large trees of any shape under a numbering that interleaves the children of different parents (ids far from their parents')"""
    rng = ctx.rng
    out = []
    for n, api in sizes:
        par = [-1] + [rng.randrange(max(0, i - 40), i) if rng.random() < 0.7 else rng.randrange(0, i) for i in range(1, n)]
        lab = list(range(1, n)); rng.shuffle(lab); lab = [0] + lab
        P = [-1] * n
        for i in range(1, n):
            P[lab[i]] = lab[par[i]]
        out.append({"P": P, "start": 0, "mode": "both", "api": api, "nones": False})
    # a comb: a long spine with a side twig at every node (a dendrite with spines) - thousands of furcations nested along one path,
    # numbered so that twigs and spine alternate
    m = 12000 if len(sizes) <= 2 else 30000
    P = [-1] * (2 * m)
    for k in range(1, m):
        P[2 * k] = 2 * (k - 1)            # spine
    for k in range(m):
        P[2 * k + 1] = 2 * k              # twig on spine node k
    out.append({"P": P, "start": 0, "mode": "both", "api": sizes[0][1], "nones": False})
    return out


def run(ctx):
    ctx.mc("MC_Traverse", "MC_Traverse.%s.cfg" % ctx.tier, expect_actions=["EnterFrame", "LeaveFrame", "Return"])
    ctx.mc("MC_ChainRec", "MC_ChainRec.cfg", coverage=False)
    cases, path = ctx.gen("Gen_Traverse", "Gen_Traverse.%s.cfg" % ctx.tier)
    ctx.run_cases("enumerated", cases, path, execute, "Trace_StructRec", keyfn, nontrivial)
    rc = random_cases(ctx, 30 if ctx.tier == "quick" else 200, 50, 300 if ctx.tier == "quick" else 500)
    p = ctx.write_cases("random", rc)
    ctx.run_cases("random", rc, p, execute, "Trace_StructRec", keyfn, nontrivial)
    ctx.mc("MC_BigRec", "MC_BigRec.%s.cfg" % ctx.tier, deadlock=False, coverage=False)      # the folded large-tree judge rejects exactly what StructRec rejects
    bc = big_cases(ctx, [(70000, 1), (3000, 0)] if ctx.tier == "quick" else [(70000, 1), (100000, 0), (150000, 2), (3000, 1)])
    p = ctx.write_cases("large-trees", bc)
    ctx.run_cases("large-trees", bc, p, execute, "Judge_BigRec", keyfn, nontrivial, per_case_timeout=600)
    deep = 20000 if ctx.tier == "quick" else 100000
    chain(ctx, deep, 0, 0)
    chain(ctx, deep // 2, 7, 1)
    if ctx.tier != "quick":
        chain(ctx, 30000, 3, 2)
    ctx.assumptions += ["callbacks are modelled by their plumbing only: they return fresh tokens; the leave callback mutates the list it receives",
                        "sibling order is not constrained (the property does not fix it)"]
    return ctx.finish(rule=RULE)


def replay(ctx, rec):
    c = rec["case"]
    if "chain" in c:
        chain(ctx, c["chain"], c["start"], c["api"])
        return ctx.finish(rule="replay of one chain")
    p = ctx.write_cases("replay", [c])
    ctx.run_cases("replay", [c], p, execute, "Trace_StructRec", keyfn)
    return ctx.finish(rule="replay of one recorded case")
