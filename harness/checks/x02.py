"""X02 (beyond the listed properties) — image-stack folders: lazy items, label / path pairing, streaming statistics (spec/Folder.tla)."""
import os, sys, shutil, tempfile, warnings
import numpy as np
from harness import lib

RULE = ("cases = every folder of up to MaxN images of V voxels over the value set (TLC), written as .npy files into a scratch directory; the real "
        "ImageStackFolder / LabeledImageStackFolder / PathImageStackFolder are built from it; every index is read back (files opened are counted "
        "by an audit hook), labels and relative paths are paired, and stat() is compared with the exact rational statistics; "
        "non-trivial = at least two images that differ; distinct by folder content")
WATCH = {"prefix": None, "log": []}
_HOOKED = [False]


def _hook(event, args):
    if event == "open" and WATCH["prefix"] is not None:
        path = args[0]
        if isinstance(path, str) and path.startswith(WATCH["prefix"]) and path.endswith(".npy"):
            WATCH["log"].append(int(os.path.basename(path)[3:-4]))


def execute(c):
    from swcgeom.images.folder import ImageStackFolder, LabeledImageStackFolder, PathImageStackFolder
    from swcgeom.transforms.base import Transform
    if not _HOOKED[0]:
        sys.addaudithook(_hook); _HOOKED[0] = True
    imgs = c["imgs"]
    n, V = len(imgs), len(imgs[0])
    tmp = tempfile.mkdtemp(prefix="verif_fold_")
    try:
        files = []
        for k, im in enumerate(imgs, 1):
            p = os.path.join(tmp, "sub%d" % (k % 2), "img%d.npy" % k)
            os.makedirs(os.path.dirname(p), exist_ok=True)
            np.save(p, np.array(im, dtype=np.float32).reshape((V, 1, 1)))
            files.append(p)
        WATCH["prefix"], WATCH["log"] = tmp, []

        class Twice(Transform):
            def __call__(self, x):
                return x * 2
        with warnings.catch_warnings():
            warnings.simplefilter("ignore")
            f = ImageStackFolder(files)
            opened0 = len(WATCH["log"])
            items = []
            for i in list(range(n)) + list(range(-n, 0)):
                WATCH["log"] = []
                a = np.asarray(f[i])
                items.append({"file": i % n + 1, "vals": [int(round(float(v))) for v in a.reshape(-1)], "opened": sorted(set(WATCH["log"]))})
            try:
                f[n]; ie = 0
            except IndexError:
                ie = 1
            lf = LabeledImageStackFolder(files, [10 + k for k in range(1, n + 1)])
            labeled = [[[int(round(float(v))) for v in np.asarray(lf[k][0]).reshape(-1)], int(lf[k][1])] for k in range(n)]
            pf = PathImageStackFolder(files, root=tmp)
            rel = []
            for k in range(n):
                a, rp = pf[k]
                rel.append([[int(round(float(v))) for v in np.asarray(a).reshape(-1)], int(os.path.basename(rp)[3:-4]) if os.path.join(tmp, rp) == files[k] else -1])
            st = f.stat()
            ft = ImageStackFolder.from_dir(tmp, transform=Twice())
            stt = ft.stat(transform=True)
        q = lambda v: int(round(float(v) * 1e6))
        return {"opened_at_construction": opened0, "len": len(f), "items": items, "index_error": ie, "labeled": labeled, "relpaths": rel,
                "count": int(st.count), "mn": q(st.minimum), "mx": q(st.maximum), "mean": q(st.mean), "var": q(st.variance), "mean_t": q(stt.mean)}
    finally:
        WATCH["prefix"] = None
        shutil.rmtree(tmp, ignore_errors=True)


def keyfn(c, o, why):
    return why


def nontrivial(c):
    return len(c["imgs"]) >= 2 and any(im != c["imgs"][0] for im in c["imgs"])


def run(ctx):
    ctx.mc("MC_Folder", "MC_Folder.%s.cfg" % ctx.tier, deadlock=False, coverage=False)      # Welford's update keeps mean / M2 equal to the definitions after every image
    cases, path = ctx.gen("Gen_Folder", "Gen_Folder.%s.cfg" % ctx.tier)
    ctx.run_cases("folders", cases, path, execute, "Judge_Folder", keyfn, nontrivial)
    ctx.assumptions += ["images are float32 .npy stacks of shape (V, 1, 1) with small integer values; statistics are compared in units of 1e-6 with tolerance 2e-5",
                        "files opened are counted by sys.addaudithook on open() of *.npy under the scratch directory"]
    return ctx.finish(rule=RULE)


def replay(ctx, rec):
    c = rec["case"]
    p = ctx.write_cases("replay", [c])
    ctx.run_cases("replay", [c], p, execute, "Judge_Folder", keyfn)
    return ctx.finish(rule="replay of one recorded case")
