"""C08 — branches, paths, tips and furcations decompose the tree exactly (spec/Decomp.tla)."""
import numpy as np
from harness import lib

RULE = ("cases = every well-formed topology (all numberings, root 0) up to the bound, for get_branches/get_paths/get_tips/"
        "get_furcations, BranchTree.from_tree / ToBranchTree, Node.branch for every non-furcation node, ToLongestPath with every "
        "edge-length assignment over {1,2}; non-trivial = at least 3 nodes; distinct by (op, topology, arguments)")


def tags(v):
    return [int(round(float(a))) - 100 for a in v]


def execute(c):
    from swcgeom.core import BranchTree
    from swcgeom.transforms import ToBranchTree, ToLongestPath
    op, P = c["op"], c["P"]
    n = len(P)
    attr = lib.default_attr(n)
    if op == "longest_path":
        t, pos = lib.mk_tree_len(P, c["el"], attr)
        p = lib.outlives(lib.reused(ToLongestPath(detach=(lib.vid(c) % 2 == 0)), c, t), t, c)
        ids = [int(v) - 100 for v in p["tag"]]
        ok = all((float(p.x()[k]), float(p.y()[k]), float(p.z()[k])) == pos[i] for k, i in enumerate(ids))
        return {"path": ids, "pointsok": int(ok)}
    if "pre" in c:
        # history: query everything on the pre-state, re-parent one node in place through its handle, then query again
        t = lib.mk_tree(c["pre"], attr)
        warm(t)
        if lib.vid(c) % 3 == 1:
            t = t.copy()             # a copy taken after the queries must not carry what they remembered either
        t.node(c["ed"][0]).pid = c["ed"][1]
    else:
        t = lib.mk_tree(P, attr)
    if op == "decomp":
        return {"branches": [[int(i) for i in b.origin_id()] for b in t.get_branches()],
                "paths": [[int(i) for i in p.origin_id()] for p in t.get_paths()],
                "tips": [int(x.id) for x in t.get_tips()], "furcs": [int(x.id) for x in t.get_furcations()]}
    if op == "node_branch":
        return {"branch": [int(i) for i in t.node(c["i"]).branch().origin_id()]}
    if op == "branch_tree":
        bt = BranchTree.from_tree(t) if lib.vid(c) % 2 else lib.outlives(lib.reused(ToBranchTree(), c, t), t, c)
        nodes = tags(bt.x())
        attrok = all([int(bt.type()[k]), int(bt.y()[k]), int(bt.z()[k]), int(bt.r()[k])] == attr[i] for k, i in enumerate(nodes))
        remember, pointsok = [], True
        for k in range(len(nodes)):
            brs = bt.branches.get(k, [])
            rem = []
            for b in brs:
                ids = tags(b.x())
                rem.append(ids)
                for j, i in enumerate(ids):
                    if [int(b.type()[j]), int(b.y()[j]), int(b.z()[j]), int(b.r()[j])] != attr[i]:
                        pointsok = False
            remember.append(rem)
        extra_keys = [k for k in bt.branches if not (0 <= k < len(nodes))]
        if extra_keys:
            pointsok = False
        flat = sorted(tags(b.x()) for b in bt.get_origin_branches())
        if flat != sorted(sum(remember, [])):
            pointsok = False
        return {"nodes": nodes, "bpid": [int(p) for p in bt.pid()], "attrok": int(attrok), "remember": remember,
                "pointsok": int(pointsok), "idsok": int(lib.ids_ok(bt))}
    raise ValueError(op)


def warm(t):
    """every query in the property's scope, so that anything the library remembers between calls is filled"""
    from swcgeom.core import BranchTree
    t.get_branches(); t.get_paths(); t.get_tips(); t.get_furcations()
    for n in t:
        n.is_tip(); n.is_furcation(); n.children(); n.parent()
        if not n.is_furcation():
            n.branch()
    BranchTree.from_tree(t)
    t.traverse(enter=lambda n, p: 0, leave=lambda n, cs: 0)


def keyfn(c, o, why):
    return "%s%s:%s" % (c["op"], "-after-edit" if "pre" in c else "", why)


def nontrivial(c):
    return len(c["P"]) >= 3


def free_cases(ctx, count, nmax):
    rng = ctx.rng
    cases = []
    for _ in range(count):
        n = rng.randint(6, nmax)
        perm = list(range(1, n)); rng.shuffle(perm)
        lab = [0] + perm
        style = rng.random()
        par = [-1] + [(rng.randrange(0, i) if rng.random() < style else i - 1) for i in range(1, n)]
        P = [-1] * n
        for i in range(1, n):
            P[lab[i]] = lab[par[i]]
        op = rng.choice(["decomp", "branch_tree", "node_branch", "longest_path"])
        c = {"op": op, "P": P}
        if op != "longest_path" and rng.random() < 0.4:          # a history: query, re-parent in place, query again
            i = rng.randrange(1, n)
            below = {i}
            grew = True
            while grew:
                grew = False
                for k in range(n):
                    if P[k] in below and k not in below:
                        below.add(k); grew = True
            cand = [j for j in range(n) if j not in below and j != P[i]]
            if cand:
                j = rng.choice(cand)
                Q = list(P); Q[i] = j
                c = {"op": op, "P": Q, "pre": P, "ed": [i, j]}
                P = Q
        if op == "node_branch":
            kids = [P.count(i) for i in range(n)]
            c["i"] = rng.choice([i for i in range(n) if kids[i] < 2])
        if op == "longest_path":
            c["el"] = [1] + [rng.randint(0, 3) for _ in range(n - 1)]
        cases.append(c)
    return cases


def run(ctx):
    ctx.mc("MC_Decomp", "MC_Decomp.%s.cfg" % ctx.tier, coverage=False)
    ctx.mc_expect_violation("MC_Decomp", "MC_Decomp.nostem.cfg", "AlgIsSpec")
    cases, path = ctx.gen("Gen_Decomp", "Gen_Decomp.%s.cfg" % ctx.tier)
    ctx.run_cases("enumerated", cases, path, execute, "Judge_Decomp", keyfn, nontrivial)
    fc = free_cases(ctx, 200 if ctx.tier == "quick" else 3000, 12 if ctx.tier == "quick" else 30)
    p = ctx.write_cases("free", fc)
    ctx.run_cases("free", fc, p, execute, "Judge_Decomp", keyfn, nontrivial)
    ctx.assumptions += ["Node.branch is only judged for non-furcation nodes (a furcation ends one branch and starts others; the property does not say which it 'is on')",
                        "ToLongestPath: ties between equally long paths are allowed to resolve either way"]
    return ctx.finish(rule=RULE)


def replay(ctx, rec):
    c = rec["case"]; c["cid"] = rec["case"].get("cid", 1)
    cid = c["cid"]
    p = ctx.write_cases("replay", [c]); c["cid"] = 1
    ctx.run_cases("replay", [c], p, execute, rec.get("judge", "Judge_Decomp"), keyfn)
    return ctx.finish(rule="replay of one recorded case")
