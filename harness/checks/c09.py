"""C09 — node, path, branch and segment views are faithful windows onto their tree (spec/Views.tla)."""
import os, json
import numpy as np
from harness import lib, tlc, core

RULE = ("behaviours = every history of up to MaxSteps view/write/copy/detach operations that TLC's exploration of MC_Views reaches on the "
        "configured trees (a Y with a stem, an unsorted 5-node tree, a chain); after every step the executor reads back every live tree and "
        "view completely (values, ids, negative indexing, slices, segments) and Trace_Views compares with the specification state; "
        "non-trivial = history contains a write, copy or detach; distinct by (tree, history)")
TREES = {"PY": [-1, 0, 1, 1], "PZ": [-1, 2, 0, 2, 1], "PC": [-1, 0, 1]}


def gen_histories(ctx, cfg, P):
    r = tlc.run("MC_Views", cfg, workers=1, timeout=1800, deadlock=False)
    if "Error:" in r.out:
        raise core.Machinery("generator MC_Views/%s failed:\n%s" % (cfg, "\n".join(r.out.splitlines()[-30:])))
    ctx._account(r, "MC_Views", cfg, "generate")
    hs = [tlc.parse_value(v) for v in r.printed("H")]
    return [{"P": P, "hist": h} for h in hs]


def ints(v):
    return [int(round(float(a))) for a in v]


def read_view(kind, obj):
    """everything the object reports, as plain ints"""
    if kind == "node":
        return {"x": ints([obj.x]), "ty": ints([obj.type]), "id": [int(obj.id)],
                "idxok": int(obj[obj.names.x] == obj.x and ("level" not in obj.attach.ndata or obj["level"] == obj.attach.ndata["level"][obj.idx])), "segs": []}
    if kind == "nodes":
        return {"x": ints([n.x for n in obj]), "ty": ints([n.type for n in obj]), "id": [int(n.id) for n in obj], "idxok": 1, "segs": []}
    x, ty = ints(obj.x()), ints(obj.type())
    ok = True
    n = len(obj)
    if n:
        ok &= int(round(float(obj[-1].x))) == x[-1] and int(round(float(obj[0].x))) == x[0] and int(round(float(obj[-n].x))) == x[0]
        ok &= ints([nd.x for nd in obj[1:]]) == x[1:] and ints([nd.x for nd in obj[:-1]]) == x[:-1] and ints([nd.x for nd in obj]) == x
        ok &= ints(obj[obj.names.x]) == x and ints(obj.xyz()[:, 0]) == x and len(obj.id()) == n
        kept = list(obj)                       # handles obtained by iteration and read only afterwards (each refers to its own node)
        ok &= ints([h.x for h in kept]) == x and ints([h.type for h in kept]) == ty
        pairs = list(zip(obj, obj[1:]))
        ok &= all(int(round(float(a.x))) == x[k] and int(round(float(b.x))) == x[k + 1] for k, (a, b) in enumerate(pairs))
        try:
            obj[n]; ok = False
        except IndexError:
            pass
        try:
            obj[-n - 1]; ok = False
        except IndexError:
            pass
    segs = []
    return {"x": x, "ty": ty, "id": [int(i) for i in obj.origin_id()], "idxok": int(bool(ok)), "segs": segs}


def nav(t):
    """what the node handles of a tree report about their neighbours: parent id (-1: none), the x the parent handle reports, children ids, and the node's
    own x asked by column name from the tree"""
    out = []
    col = t[t.names.x]
    for i in range(len(t)):
        nd = t.node(i)
        p = nd.parent()
        out.append([-1 if p is None else int(p.id), 0 if p is None else int(round(float(p.x))), [int(k.id) for k in nd.children()], int(round(float(col[i])))])
    return out


def execute(c):
    P, hist = c["P"], c["hist"]
    n = len(P)
    from swcgeom.core import Tree
    xs0 = np.array([10 + k + 1 for k in range(n)], dtype=np.float32)
    ty0 = np.array([1 + (k + 1) % 3 for k in range(n)], dtype=np.int32)
    # the extra column is called "level" (one of the extended-SWC column names) and is held as float64 (what the reader produces) or int32
    e0 = np.array([50 + k + 1 for k in range(n)], dtype=np.int32 if lib.vid(c) % 2 else np.float64)
    if lib.vid(c) % 3 == 1:
        # the same values held in strided columns (columns of one 2-d block, as after an affine transform or a table sliced column-wise)
        fb = np.zeros((n, 3), dtype=np.float32); fb[:, 1] = xs0
        ib = np.zeros((n, 2), dtype=np.int32); ib[:, 0] = ty0
        eb = np.zeros((n, 2), dtype=e0.dtype); eb[:, 1] = e0
        xs0, ty0, e0 = fb[:, 1], ib[:, 0], eb[:, 1]
    if lib.vid(c) % 4 == 3:
        # a tree whose coordinate and radius columns carry user-chosen names (views and detached copies answer x() / r() all the same)
        from swcgeom.core.swc_utils import SWCNames
        nm = SWCNames(x="px", r="radius")
        t0 = Tree(n, source=lib.SRC, names=nm, id=np.arange(n, dtype=np.int32), pid=np.array(P, dtype=np.int32), px=xs0, type=ty0, level=e0)
        XK = "px"
    else:
        t0 = Tree(n, source=lib.SRC, id=np.arange(n, dtype=np.int32), pid=np.array(P, dtype=np.int32), x=xs0, type=ty0, level=e0)
        XK = "x"
    if lib.vid(c) % 3 == 1 and t0.ndata[XK].flags["C_CONTIGUOUS"]:
        t0.ndata[XK], t0.ndata["type"] = xs0, ty0          # the constructor made them contiguous: install the strided columns directly
    trees, views = [t0], []       # views: (kind, object, origin_ids-for-detached)
    steps = []
    for act in hist:
        a = act["a"]
        exc = ""
        try:
            if a == "node":
                t = trees[act["t"] - 1]
                if lib.vid(c) % 3 == 2:
                    nd = t.node(act["key"])                   # the handle keeps the key as given (negative keys included)
                else:
                    nd = t[act["key"]] if act["key"] % 2 == 0 else t[np.int64(act["key"])]
                views.append(("node", nd, None))
            elif a == "index_error":
                trees[act["t"] - 1][act["key"]]
            elif a == "slice":
                lo = None if act["lo"] == 0 else act["lo"]
                hi = None if act["hi"] == 99 else act["hi"]
                views.append(("nodes", trees[act["t"] - 1][lo:hi], None))
            elif a == "path":
                t = trees[act["t"] - 1]
                views.append(("path", [p for p in t.get_paths() if int(p.origin_id()[-1]) == act["tip"]][0], None))
            elif a == "branch":
                t = trees[act["t"] - 1]
                brs = sorted(t.get_branches(), key=lambda b: int(b.origin_id()[-1]))
                views.append(("branch", brs[act["b"] - 1], None))
            elif a == "seg":
                t = trees[act["t"] - 1]
                views.append(("seg", [s for s in t.get_segments() if int(s.origin_id()[-1]) == act["c"]][0], None))
            elif a == "write":
                nd = views[act["v"] - 1][1]
                if act["col"] == "x":
                    nd.x = float(act["val"])
                elif act["col"] == "e":
                    nd["level"] = act["val"]
                else:
                    nd.type = int(act["val"])
            elif a == "copy":
                trees.append(trees[act["t"] - 1].copy())
            elif a == "detach":
                kind, obj, _ = views[act["v"] - 1]
                views.append(("det:" + kind, obj.detach(), None))
        except Exception as ex:
            exc = type(ex).__name__
        rep_views = []
        for kind, obj, _ in views:
            base = kind.split(":")[-1]
            try:
                rv = read_view(base, obj)
                if base == "branch":
                    sg = obj.get_segments()
                    ids = [[int(i) for i in s.origin_id()] for s in sg] if not kind.startswith("det") else None
                    xs = [ints(s.x()) for s in sg]
                    pairs = [[rv["x"][k], rv["x"][k + 1]] for k in range(len(rv["x"]) - 1)]
                    if xs != pairs:
                        rv["idxok"] = 0
                    rv["segs"] = ids if ids is not None else [[rv["id"][k], rv["id"][k + 1]] for k in range(len(rv["id"]) - 1)]
                    if kind.startswith("det"):
                        rv["segs"] = []
            except Exception as ex:
                rv = {"x": [], "ty": [], "id": [], "idxok": 0, "segs": [], "readerr": type(ex).__name__}
            rep_views.append(rv)
        steps.append({"exc": exc, "trees": [{"x": ints(t.x()), "ty": ints(t.type()), "e": ints(t.ndata["level"]) if "level" in t.ndata else [], "nav": nav(t)}
                                            for t in trees], "views": rep_views})
    segs = t0.get_segments()
    treesegs = [[int(i) for i in s.origin_id()] for s in segs]
    if len(segs):
        xs = segs.x()
        for k, s in enumerate(treesegs):
            if ints(xs[k]) != [int(round(float(t0.x()[s[0]]))), int(round(float(t0.x()[s[1]])))]:
                treesegs[k] = [-7, -7]
    # containers of segments whose members have different owners: detached segments, segments of several branches
    try:
        from swcgeom.core.compartment import Compartments
        if len(segs):
            det = Compartments([sg.detach() for sg in segs])
            if [ints(r) for r in det.x()] != [ints(r) for r in segs.x()] or [ints(r) for r in det.type()] != [ints(r) for r in segs.type()]:
                treesegs = [[-8, -8]]
        brs = t0.get_branches()
        if len(brs) >= 2:
            mix = brs[0].get_segments()
            mix.extend(brs[1].get_segments())
            want = [ints(r) for r in brs[0].get_segments().x()] + [ints(r) for r in brs[1].get_segments().x()]
            if [ints(r) for r in mix.x()] != want:
                treesegs = [[-9, -9]]
    except Exception:      # noqa: BLE001 - reported through the same clause
        treesegs = [[-10, -10]]
    m = t0.get_adjacency_matrix().tocoo()
    adj = sorted([int(r), int(cc)] for r, cc, v in zip(m.row, m.col, m.data) if v != 0)
    out = {"steps": steps, "treesegs": treesegs, "adj": adj, "edit": [], "treesegs2": [], "adj2": [], "nav2": []}
    # last stage: the parent of one node is assigned through its handle (an admissible re-parenting); segments, adjacency and neighbours are asked again
    ps = lib.pre_state(P, lib.vid(c))
    if ps is not None:
        Q, i = ps
        t0.length(); t0.get_segments(); t0.get_branches(); t0.get_paths()
        t0.node(i).pid = Q[i]
        segs2 = t0.get_segments()
        out["edit"] = [i, Q[i]]
        out["treesegs2"] = [[int(v) for v in sg.origin_id()] for sg in segs2]
        m = t0.get_adjacency_matrix().tocoo()
        out["adj2"] = sorted([int(r), int(cc)] for r, cc, v in zip(m.row, m.col, m.data) if v != 0)
        out["nav2"] = nav(t0)
    return out


def keyfn(c, o, why):
    return why


def nontrivial(c):
    return any(a["a"] in ("write", "copy", "detach") for a in c["hist"])


def run(ctx):
    ctx.mc("MC_Views", "MC_Views.%s.cfg" % ctx.tier, deadlock=False, coverage=False, timeout=3000)
    gens = [("MC_Views.gen3y.cfg", "PY"), ("MC_Views.gen2c.cfg", "PC"), ("MC_Views.focus4y.cfg", "PY"), ("MC_Views.focus4c.cfg", "PC")]
    if ctx.tier == "quick":
        gens.append(("MC_Views.gen2z.cfg", "PZ"))
    else:
        gens += [("MC_Views.gen3z.cfg", "PZ"), ("MC_Views.focus5y.cfg", "PY")]
    for cfg, tn in gens:
        cases = gen_histories(ctx, cfg, TREES[tn])
        path = ctx.write_cases("hist-" + tn, cases)
        ctx.run_cases("hist-" + tn, cases, path, execute, "Trace_Views", keyfn, nontrivial)
    ctx.exhaustive = True
    ctx.assumptions += ["detached copies are compared on values (x, type); their ids are renumbered by design",
                        "writes through Path.Node handles (fancy-indexed copies) are outside the property and not generated",
                        "view selection (which path / branch / segment) is by end node, independent of the library's listing order"]
    return ctx.finish(rule=RULE)


def replay(ctx, rec):
    c = rec["case"]
    p = ctx.write_cases("replay", [c])
    ctx.run_cases("replay", [c], p, execute, "Trace_Views", keyfn)
    return ctx.finish(rule="replay of one recorded history")
