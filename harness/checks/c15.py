"""C15 — Neurolucida ASC conversion is faithful to the document (spec/Asc.tla)."""
from harness import lib
import io, os, tempfile, shutil, atexit
from harness import core, tlc

RULE = ("documents = every token stream that the grammar-driven producer of MC_Asc emits within the bounds (points, split nesting, alternatives per "
        "split incl. empty ones, colour markers and comments at every place the grammar allows); for each: the complete document, every proper "
        "prefix and every single-point corruption (dropped / extra float, literal for a float, glued word, missing bracket, doubled closing bracket), rendered with varying "
        "whitespace and number spellings through from_stream / convert / __call__; plus scaled documents (long branches, deep nesting) and random "
        "documents; non-trivial = the document has a split; distinct by (token stream, variant)")

KINDS = ["dropped-float", "extra-float", "literal-for-float", "glued-word", "missing-close", "extra-close"]


def corrupt(T, p, kind):
    """mirror of Asc!Corrupt (1-based p); the judge checks that this is the specified stream"""
    T = list(T); i = p - 1
    if kind == "dropped-float":
        del T[i + 3]
    elif kind == "extra-float":
        T.insert(i + 4, ["F", 9])
    elif kind == "literal-for-float":
        T[i + 1] = ["L", "abc"]
    elif kind == "glued-word":
        T[i + 2] = ["X", "1abc"]
    elif kind == "missing-close":
        del T[i + 4]
    elif kind == "extra-close":
        T.insert(i + 5, [")"])
    return T


def point_starts(T):
    return [p + 1 for p in range(len(T) - 4) if T[p][0] == "F" and (p == 0 or T[p - 1][0] != "F") and T[p + 1][0] == "F"]


def point_vals(n):
    return [n + 1, ((n * 3) % 5) - 2, (n * 7) % 4, 1 + (n % 3)]


def dup_stream(T, m):
    """mirror of Asc!DupStream: the k-th point gets the values of point k % m (the judge checks that this is the specified stream)"""
    T = [list(t) for t in T]
    for idx, st in enumerate(point_starts(T)):
        vals = point_vals(idx % m)
        for k in range(4):
            T[st - 1 + k] = ["F", vals[k]]
    return T


def fmt_float(v, style):
    if style == 0:
        return str(v)
    if style == 1:
        return "%.2f" % v
    if style == 2:
        return ("+%d" % v) if v >= 0 else str(v)
    return "%de0" % v if style == 3 else "%.1f" % v


def render(T, style):
    out = []
    seps = [" ", "\n", "  \t", "\n   ", ""]
    prev_word = False
    for k, tok in enumerate(T):
        kind = tok[0]
        if kind == ";":
            out.append(" ;" + tok[1] + "\n")
            prev_word = False
            continue
        word = kind in ("F", "L", "X")
        text = fmt_float(tok[1], (style + k) % 5) if kind == "F" else (tok[1] if word else kind)
        sep = seps[(style * 7 + k * 3) % 5]
        if sep == "" and word and prev_word:
            sep = " "
        out.append(sep + text)
        prev_word = word
    return "".join(out) + ("\n" if style % 2 else "")


ASC_DIR = None


def convert(text, api, cid):
    from swcgeom.transforms import NeurolucidaAscToSwc
    if api == 0:
        return NeurolucidaAscToSwc.from_stream(io.StringIO(text))
    # every document is saved under one and the same path (a converter that remembers a path's earlier content shows)
    global ASC_DIR
    if ASC_DIR is None or not os.path.isdir(ASC_DIR):
        ASC_DIR = tempfile.mkdtemp(prefix="verif_asc_")
        atexit.register(shutil.rmtree, ASC_DIR, True)
    p = os.path.join(ASC_DIR, "cell.asc")
    try:
        with open(p, "w") as f:
            f.write(text)
        return NeurolucidaAscToSwc.convert(p) if api == 1 else NeurolucidaAscToSwc()(p)
    finally:
        os.remove(p)


def project(t):
    n = len(t.id())
    seq = [int(round(float(v))) - 1 for v in t.x()]
    return {"ids": [int(v) for v in t.id()], "pid": [int(v) for v in t.pid()], "ty": [int(v) for v in t.type()], "seq": seq,
            "xyzr": [[int(round(float(t.x()[i]))), int(round(float(t.y()[i]))), int(round(float(t.z()[i]))), int(round(float(t.r()[i])))] for i in range(n)]}


def big_text(kind, n, label):
    def pt(i):
        return "(%d %d %d %d)" % (i + 1, (i * 3) % 5 - 2, (i * 7) % 4, 1 + i % 3)
    if kind == "chain":
        body = "\n".join(pt(i) for i in range(n))
    else:
        d = n
        parts = [pt(0)]
        for i in range(1, d + 1):
            parts.append("(" + pt(i))
        for j in range(1, d + 1):
            parts.append("| " + pt(d + j) + ")")
        body = "\n".join(parts)
    return "((%s)\n%s\n)\n" % (label, body)


def execute(c):
    if c["var"] == "big":
        t = convert(big_text(c["kind"], c["n"], c["label"]), lib.vid(c) % 2, lib.vid(c))
        return project(t)
    text = render(c["run"], c["style"])
    if c.get("pad"):
        # blanks are inserted in front of a comment so that the comment straddles a multiple of a typical read-buffer size (blanks are not tokens)
        k = text.find(";")
        if 0 <= k < c["pad"]:
            text = text[:k] + " " * (c["pad"] - k) + text[k:]
    t = convert(text, c["api"], lib.vid(c))
    return project(t)


def exec_lex(c):
    """the tokeniser on one character string; a token is [kind, text, value * 10^6 (or -1), negative?]"""
    try:
        from swcgeom.transforms.neurolucida_asc import Lexer
    except ImportError:
        return {"err": "machinery", "toks": []}
    text = "".join(c["s"])
    kinds = {"BRACKET_LEFT": "(", "BRACKET_RIGHT": ")", "OR": "|", "COMMENT": ";", "FLOAT": "F", "LITERAL": "L"}
    toks = []
    for t in Lexer(io.StringIO(text)):
        k = kinds.get(t.type.name, t.type.name)
        if k == "F":
            v = float(t.value)
            m = abs(v) * 1e6
            ok = m < 2e9 and abs(m - round(m)) < 1e-6 * max(1.0, m)
            toks.append(["F", "", int(round(m)) if ok else -1, int(v < 0 or (v == 0 and str(v).startswith("-")))])
        else:
            toks.append([k, str(t.value) if k in (";", "L") else "", -1, 0])
    return {"toks": toks}


def keyfn(c, o, why):
    if "s" in c:
        return "lexer:%s" % why
    if c["var"] == "big":
        if why.startswith("rejected-a-well-formed-document-"):
            why = "rejected-a-well-formed-document"          # the key does not depend on which exception class says so
        return "big-%s:%s" % (c["kind"], why if c["n"] < 900 else why + ":n>=900")
    return "%s:%s" % (c["var"], why)


def nontrivial(c):
    if "s" in c:
        return len(c["s"]) >= 2
    return c["var"] == "big" or any(t[0] == "|" for t in c["toks"])


def expand(docs, rng, q):
    cases = []
    for d, (toks, exp, label) in enumerate(docs):
        base = {"toks": toks, "exp": exp, "label": label}
        cases.append(dict(base, var="complete", run=toks, style=d % 10, api=d % 3))
        cases.append(dict(base, var="complete", run=toks, style=(d + 5) % 10, api=0))
        if any(t[0] == ";" for t in toks):          # a comment across the 4 KiB / 8 KiB / 64 KiB marks of the character stream
            for pad in (4094, 8190, 65533):
                cases.append(dict(base, var="complete", run=toks, style=(d + pad) % 10, api=(d + pad) % 3, pad=pad))
        for m in (1, 2):          # the same document with coincident points
            cases.append(dict(base, var="dup", m=m, run=dup_stream(toks, m), style=(d + m) % 10, api=(d + m) % 3))
        ks = list(range(0, len(toks)))
        if q and len(ks) > 12:
            ks = sorted(set(rng.sample(ks, 10) + [len(toks) - 1, len(toks) - 2]))
        for k in ks:
            cases.append(dict(base, var="prefix", k=k, run=toks[:k], style=(d + k) % 10, api=0))
        ps = point_starts(toks)
        if q and len(ps) > 2:
            ps = rng.sample(ps, 2)
        for p in ps:
            for kind in KINDS:
                cases.append(dict(base, var="corrupt", p=p, kind=kind, run=corrupt(toks, p, kind), style=(d + p) % 10, api=0))
    return cases


def gen_docs(ctx, cfg):
    r = tlc.run("MC_Asc", cfg, workers=1, deadlock=False, timeout=1800)
    if "Error:" in r.out:
        raise core.Machinery("generator MC_Asc/%s failed:\n%s" % (cfg, "\n".join(r.out.splitlines()[-30:])))
    ctx._account(r, "MC_Asc", cfg, "generate")
    docs = [tlc.parse_value("<<" + v + ">>") for v in r.printed("D")]
    return [(d[0], d[1], d[2]) for d in docs]


def random_docs(ctx, count):
    """random documents from the same grammar, longer than TLC's (reference table recomputed by the judge from the tokens)"""
    rng = ctx.rng
    docs = []
    for _ in range(count):
        toks = [["("]]
        if rng.random() < 0.4:
            toks += [["("], ["L", "Color"], ["L", "Yellow"], [")"]]
        label = rng.choice(["Axon", "Dendrite", "AXON", "dendrite"])
        toks += [["("], ["L", label], [")"]]
        n = [0]

        def point():
            i = n[0]; n[0] += 1
            toks.extend([["("], ["F", i + 1], ["F", (i * 3) % 5 - 2], ["F", (i * 7) % 4], ["F", 1 + i % 3], [")"]])
            if rng.random() < 0.15:
                toks.append([";", " %d, R-%d (x | y)" % (i, i)])

        def branch(depth):
            for _ in range(rng.randint(1, 6)):
                point()
                if rng.random() < 0.1:
                    toks.extend([["("], ["L", "Color"], ["L", "Red"], [")"]])
            if depth < 4 and rng.random() < 0.55 and n[0] < 40:
                toks.append(["("])
                alts = rng.randint(2, 4)
                for a in range(alts):
                    if a:
                        toks.append(["|"])
                    if rng.random() < 0.15:
                        continue                      # empty alternative (first, middle or last)
                    branch(depth + 1)
                toks.append([")"])
                if rng.random() < 0.2:
                    toks.append([";", " End of split"])
        branch(0)
        toks.append([")"])
        docs.append((toks, [], label))
    return docs


def run(ctx):
    q = ctx.tier == "quick"
    ctx.mc("MC_Asc", "MC_Asc.%s.cfg" % ctx.tier, deadlock=False, coverage=False, timeout=3000)
    ctx.mc_expect_violation("MC_Asc", "MC_Asc.nolead.cfg", "Faithful", deadlock=False)
    ctx.mc_expect_violation("MC_Asc", "MC_Asc.noclose.cfg", "RejectsTruncated", deadlock=False)
    ctx.mc_expect_violation("MC_Asc", "MC_Asc.trailing.cfg", "RejectsCorrupt", deadlock=False)
    # the tokeniser, character by character: the state machine computes Lex (MC_Lexer), every short string goes through the real Lexer
    ctx.mc("MC_Lexer", "MC_Lexer.%s.cfg" % ctx.tier, deadlock=False, coverage=False)
    lcases, lpath = ctx.gen("Gen_Lexer", "Gen_Lexer.%s.cfg" % ctx.tier)
    ctx.run_cases("tokeniser", lcases, lpath, exec_lex, "Judge_Lexer", keyfn, nontrivial)
    docs = gen_docs(ctx, "MC_Asc.gen.%s.cfg" % ctx.tier) + gen_docs(ctx, "MC_Asc.genm.%s.cfg" % ctx.tier)
    cases = expand(docs, ctx.rng, q)
    cap = 60000
    if len(cases) > cap:
        # (thorough) every document TLC produced is expanded into its complete form, every prefix and every corruption: hundreds of thousands of
        # variants, a gigabyte of case records that the judge has to read - an evenly spread, seed-shifted sample of them is executed
        step = len(cases) / float(cap)
        cases = [cases[int((i * step + ctx.seed) % len(cases))] for i in range(cap)]
        ctx.exhaustive = False
    p = ctx.write_cases("produced", cases)
    ctx.run_cases("produced", cases, p, execute, "Judge_Asc", keyfn, nontrivial)
    rd = expand(random_docs(ctx, 60 if q else 1500), ctx.rng, True)
    p = ctx.write_cases("random", rd)
    ctx.run_cases("random", rd, p, execute, "Judge_Asc", keyfn, nontrivial)
    big = [{"var": "big", "kind": k, "n": n, "label": l, "toks": []} for (k, n, l) in
           ([("chain", 5, "Axon"), ("comb", 3, "Dendrite"), ("chain", 900, "Axon"), ("chain", 5000, "Dendrite"), ("comb", 50, "Axon"), ("comb", 300, "Axon")] +
            ([] if q else [("chain", 50000, "Axon"), ("comb", 900, "Dendrite")]) + [("comb", 1200, "Axon")])]
    p = ctx.write_cases("scaled", big)
    ctx.run_cases("scaled", big, p, execute, "Judge_Asc", keyfn, nontrivial, per_case_timeout=300)
    ctx.assumptions += ["supported grammar = one tree per document; within a branch: points and markers, optionally ended by one split; every split follows a point of its "
                        "own branch; '( )' is not a split; alternatives may be empty (first, middle or last)",
                        "comments are produced after points, after '|' and after brackets inside the body, not between the label and the first point",
                        "the scaled documents are built by the executor from the same definitions as ChainExp / CombExp; their small instances (n=5, d=3) go through the same builder"]
    return ctx.finish(rule=RULE)


def replay(ctx, rec):
    c = rec["case"]
    p = ctx.write_cases("replay", [c])
    ctx.run_cases("replay", [c], p, exec_lex if "s" in c else execute, rec.get("judge", "Judge_Asc"), keyfn, per_case_timeout=300)
    return ctx.finish(rule="replay of one recorded case")
