"""C19 — population containers index correctly and load each file at most once, on demand (spec/Population.tla)."""
import os, sys, shutil, tempfile, warnings
from harness import core, tlc

RULE = ("behaviours = every history of container operations (from_swc, index with negative / out-of-range keys, slices, iteration, len, "
        "Populations over existing populations and from directories, row access, to_population, map) that TLC's exploration of MC_Population "
        "reaches within the step bound over three directories (overlapping nested file sets, one empty); each is executed on real objects in a "
        "scratch directory with every read-open of every file counted by an audit hook, and validated step by step by Trace_Population; plus "
        "random longer histories over random layouts (junk files, empty folders, deeper nesting, empty chain members); "
        "non-trivial = history hands out at least one tree after a slice / chain / zip was built; distinct by (layout, history)")

DIRS = [["a", "b/c", "d"], ["b/c", "e", "a"], []]
WATCH = {"prefix": None, "counts": {}}
_HOOKED = [False]


def _hook(event, args):
    if event == "open" and WATCH["prefix"] is not None:
        path, mode = args[0], args[1]
        if isinstance(path, str) and path.startswith(WATCH["prefix"]) and (mode is None or "r" in str(mode)) and path.endswith(".swc"):
            path = os.path.normpath(path)
            WATCH["counts"][path] = WATCH["counts"].get(path, 0) + 1


def ensure_hook():
    if not _HOOKED[0]:
        sys.addaudithook(_hook)
        _HOOKED[0] = True


def source_of(tree):          # top-level: picklable for Population.map
    return tree.source


SWC = "1 1 0 0 0 1 -1\n2 3 1 0 0 1 1\n3 3 2 0 0 1 2\n"


def swc_of(name):
    """a chain whose number of nodes (3..6) depends on the file's name: the trees of a population differ in size"""
    n = 3 + sum(ord(ch) for ch in name) % 4
    return "".join("%d %d %d 0 0 1 %d\n" % (k + 1, 1 if k == 0 else 3, k, -1 if k == 0 else k) for k in range(n)), n


def scratch_parent():
    """a memory file system lists a directory in the order its entries were made (directories filled in different sequences then list the same
    names in different orders); elsewhere the default temporary directory"""
    d = "/dev/shm"
    return d if os.path.isdir(d) and os.access(d, os.W_OK) else None


def exec_hist(c):
    from swcgeom.core import Population, Populations
    from swcgeom.core.population import ChainTrees
    ensure_hook()
    dirs = c["dirs"]
    tmp = tempfile.mkdtemp(prefix="verif_pop_", dir=scratch_parent())
    roots = []
    try:
        for r, names in enumerate(dirs, 1):
            root = os.path.join(tmp, "root%d" % r)
            os.makedirs(root)
            os.makedirs(os.path.join(root, "empty_folder"), exist_ok=True)
            with open(os.path.join(root, "notes.txt"), "w") as f:          # not an swc file: must not be listed
                f.write("x")
            seq = list(names)
            seq = seq[r % max(1, len(seq)):] + seq[:r % max(1, len(seq))]          # every directory is filled in its own sequence
            if r % 2 == 0:
                seq.reverse()
            for nm in seq:
                p = os.path.join(root, nm + ".swc")
                os.makedirs(os.path.dirname(p), exist_ok=True)
                with open(p, "w") as f:
                    f.write(swc_of(nm)[0])
            for nm in c.get("junk", {}).get(str(r), []):
                p = os.path.join(root, nm)
                os.makedirs(os.path.dirname(p), exist_ok=True)
                with open(p, "w") as f:
                    f.write(SWC)
            roots.append(root)
        WATCH["prefix"], WATCH["counts"] = tmp, {}

        def ident(src):
            rel = os.path.relpath(os.path.normpath(src), tmp)
            head, _, rest = rel.partition(os.sep)
            return [int(head[4:]), rest[:-4].replace(os.sep, "/")]

        def reads():
            return [[r, nm, WATCH["counts"].get(os.path.join(roots[r - 1], nm + ".swc"), 0)] for r, names in enumerate(dirs, 1) for nm in names]
        objs, steps = [], []
        for act in c["hist"]:
            act = dict(act)
            a = act["a"]
            with warnings.catch_warnings():
                warnings.simplefilter("ignore")
                if a == "from_swc":
                    pop = Population.from_swc(roots[act["r"] - 1] + (os.sep if len(steps) % 3 == 1 else ""))
                    objs += [pop.trees, pop]
                    act["order"] = [ident(p)[1] for p in pop.trees.swcs]
                    res = ["obj", len(pop)]
                elif a == "index":
                    try:
                        res = ["tree", ident(objs[act["o"] - 1][act["key"]].source)]
                    except IndexError:
                        res = ["IndexError"]
                elif a == "slice":
                    sl = slice(*[None if v == 99 else v for v in (act["lo"], act["hi"], act["st"])])
                    nest = objs[act["o"] - 1][sl]
                    objs.append(nest)
                    res = ["obj", len(nest)]
                elif a == "popof":
                    p2 = Population(objs[act["o"] - 1])
                    objs.append(p2)
                    res = ["obj", len(p2)]
                elif a == "iter":
                    res = ["trees", [ident(t.source) for t in objs[act["o"] - 1]]]
                elif a == "map":
                    res = ["trees", [ident(s) for s in objs[act["o"] - 1].map(source_of, max_worker=1)]]
                elif a == "ptransform":
                    from swcgeom.transforms import PopulationTransform, Translate
                    newp = PopulationTransform(Translate(1.0, 0.0, 0.0))(objs[act["o"] - 1])
                    out = []
                    for t in newp:          # the new population holds the transformed trees (x of the three nodes: 0,1,2 -> 1,2,3)
                        out.append(ident(t.source) if [float(v) for v in t.x()] == [1.0 + k for k in range(len(t.x()))] and len(t.x()) == swc_of(ident(t.source)[1])[1]
                                   else [0, "not-transformed"])
                    res = ["trees", out]
                elif a == "len":
                    res = ["len", len(objs[act["o"] - 1])]
                elif a == "zip":
                    zs = Populations.from_swc([roots[r - 1] + (os.sep if (r + len(steps)) % 2 else "") for r in act["roots"]])     # (a directory may be named with or without a trailing separator)
                    for p in zs.populations:
                        objs += [p.trees, p]
                    objs.append(zs)
                    order = [ident(p)[1] for p in zs.populations[0].trees.swcs]
                    for p in zs.populations[1:]:
                        if [ident(q)[1] for q in p.trees.swcs] != order:
                            order = order + ["<populations list different names at the same position>"]
                    act["order"] = order
                    res = ["obj", len(zs)]
                elif a == "zipof":
                    zs = Populations([objs[p - 1] for p in act["pops"]])
                    objs.append(zs)
                    res = ["obj", len(zs)]
                elif a == "zipindex":
                    try:
                        res = ["row", [ident(t.source) for t in objs[act["o"] - 1][act["key"]]]]
                    except IndexError:
                        res = ["IndexError"]
                elif a == "topop":
                    p = objs[act["o"] - 1].to_population()
                    objs += [p.trees, p]
                    res = ["obj", len(p)]
                else:
                    raise ValueError(a)
            steps.append({"act": act, "res": res, "reads": reads()})
        return {"steps": steps}
    finally:
        WATCH["prefix"] = None
        shutil.rmtree(tmp, ignore_errors=True)


def keyfn(c, o, why):
    return "history:%s" % why


def nontrivial(c):
    seen = False
    for act in c["hist"]:
        if act["a"] in ("slice", "zip", "zipof", "topop"):
            seen = True
        elif seen and act["a"] in ("index", "iter", "zipindex", "map"):
            return True
    return False


def gen_histories(ctx, cfg, simulate=None, depth=None, seed=None):
    r = tlc.run("MC_Population", cfg, workers=1, deadlock=False, timeout=1800, simulate=simulate, depth=depth, seed=seed)
    if "Error:" in r.out:
        raise core.Machinery("generator MC_Population/%s failed:\n%s" % (cfg, "\n".join(r.out.splitlines()[-30:])))
    ctx._account(r, "MC_Population", cfg, "generate")
    hs = [tlc.parse_value(v) for v in r.printed("H")]
    seen, out = set(), []
    for h in hs:
        k = repr(h)
        if k not in seen:
            seen.add(k)
            out.append({"dirs": DIRS, "hist": h})
    return out


def free_histories(ctx, count):
    """random longer histories over random layouts; the typing discipline (which object is what) is kept by a small mirror"""
    rng = ctx.rng
    out = []
    names = ["a", "b", "c", "d/e", "d/f", "g/h/i", "j", "k/l", ".hid/m", "hid/m", ".n", "o/.p/q", "..r/s"]       # dot-prefixed folders and files are names like any other
    for t in range(count):
        nroot = rng.randint(2, 4)
        dirs = [sorted(rng.sample(names, rng.choice([0, 1, 2, 3, 5, 8]))) for _ in range(nroot)]
        junk = {str(r + 1): rng.sample(["readme.md", "x/y.txt", "old.swc.bak", "d/e.eswc"], rng.randint(0, 3)) for r in range(nroot)}
        kinds, lens, used, hist, zipmem = [], [], set(), [], {}

        def alloc(k, n):
            kinds.append(k); lens.append(n)
        for _ in range(rng.randint(4, 14)):
            pops = [i + 1 for i, k in enumerate(kinds) if k == "pop"]
            conts = [i + 1 for i, k in enumerate(kinds) if k in ("pop", "nest", "lazy", "chain")]
            zips = [i + 1 for i, k in enumerate(kinds) if k == "zip"]
            choices = []
            if len(used) < nroot:
                choices += ["from_swc"] * 3
            if conts:
                choices += ["index"] * 5 + ["iter", "len"]
            if pops:
                choices += ["slice"] * 2 + ["zipof"]
                if rng.random() < 0.05:
                    choices += ["map"]
                if rng.random() < 0.3:
                    choices += ["ptransform"]
            nests = [i + 1 for i, k in enumerate(kinds) if k == "nest"]
            if nests:
                choices += ["popof"] * 2
            if zips:
                choices += ["zipindex"] * 2 + ["topop"] * 2
            if len(used) + 2 <= nroot and rng.random() < 0.3:
                choices += ["zip"] * 3
            a = rng.choice(choices)
            if a == "from_swc":
                r = rng.choice([x for x in range(1, nroot + 1) if x not in used]); used.add(r)
                hist.append({"a": a, "r": r, "order": []}); alloc("lazy", len(dirs[r - 1])); alloc("pop", len(dirs[r - 1]))
            elif a == "index":
                o = rng.choice(conts); n = lens[o - 1]
                hist.append({"a": a, "o": o, "key": rng.randint(-n - 1, n)})
            elif a == "popof":
                o = rng.choice(nests)
                hist.append({"a": a, "o": o}); alloc("pop", lens[o - 1])
            elif a in ("iter", "len"):
                o = rng.choice(conts if a == "iter" else conts + zips)
                hist.append({"a": a, "o": o})
            elif a in ("map", "ptransform"):
                hist.append({"a": a, "o": rng.choice(pops)})
            elif a == "slice":
                o = rng.choice(pops); n = lens[o - 1]
                lo, hi = rng.choice([99, 0, 1, -1, -2, 2, n]), rng.choice([99, 0, 1, -1, 3, n + 2])
                st = rng.choice([1, 1, 2, -1])
                hist.append({"a": a, "o": o, "lo": lo, "hi": hi, "st": st})
                alloc("nest", len(range(*slice(None if lo == 99 else lo, None if hi == 99 else hi, st).indices(n))))
            elif a == "zipof":
                ps = [rng.choice(pops) for _ in range(rng.randint(1, 3))]
                hist.append({"a": a, "pops": ps}); alloc("zip", min(lens[p - 1] for p in ps))
                zipmem[len(kinds)] = ps
            elif a == "zip":
                avail = [x for x in range(1, nroot + 1) if x not in used]
                rs = rng.sample(avail, 3 if len(avail) >= 3 and rng.random() < 0.6 else 2); used.update(rs)
                common = [n_ for n_ in dirs[rs[0] - 1] if all(n_ in dirs[r_ - 1] for r_ in rs[1:])]
                hist.append({"a": a, "roots": rs, "order": []})
                first = len(kinds)
                for _r in rs:
                    alloc("lazy", len(common)); alloc("pop", len(common))
                alloc("zip", len(common))
                zipmem[len(kinds)] = [first + 2 * (q_ + 1) for q_ in range(len(rs))]
            elif a == "zipindex":
                o = rng.choice(zips); n = lens[o - 1]
                hist.append({"a": a, "o": o, "key": rng.randint(-n - 1, n)})
            elif a == "topop":
                o = rng.choice(zips)
                mem = zipmem[o]
                total = sum(lens[p - 1] for p in mem)
                hist.append({"a": a, "o": o}); alloc("chain", total); alloc("pop", total)
        out.append({"dirs": dirs, "junk": junk, "hist": hist})
    return out


def chain_histories(ctx, q):
    """three populations of different sizes chained; then every ordered pair (and some triples) of indices on the chain: what an index returns
    must not depend on which index was asked before"""
    dirs = [["a", "b", "c"], ["a", "b"], ["a", "b", "c", "d"]]
    pre = [{"a": "from_swc", "r": 1, "order": []}, {"a": "from_swc", "r": 2, "order": []}, {"a": "from_swc", "r": 3, "order": []},
           {"a": "zipof", "pops": [2, 4, 6]}, {"a": "topop", "o": 7}]
    n = 9
    out = []
    keys = list(range(-n, n))
    pairs = [(a, b) for a in keys for b in keys if a != b]
    if q:
        pairs = pairs[::5]
    for k, (a, b) in enumerate(pairs):
        o = 8 + k % 2
        hist = pre + [{"a": "index", "o": o, "key": a}, {"a": "index", "o": o, "key": b}]
        if k % 3 == 0:
            hist += [{"a": "index", "o": o, "key": (a + b) % n}, {"a": "iter", "o": o}]
        out.append({"dirs": dirs, "junk": {}, "hist": hist})
    return out


def view_histories(ctx, q):
    """a population over a slice view, sliced again with every (start, stop, step): slicing composes (the step included)"""
    dirs = [["a", "b", "c", "d", "e", "f", "g"]]
    out = []
    firsts = [(1, 6, 1), (99, 99, 2), (5, 0, -1), (2, 99, 1)]
    seconds = [(lo, hi, st) for lo in (99, 0, 1, -2) for hi in (99, 3, -1) for st in (1, 2, -1)]
    if q:
        seconds = seconds[::2]
    for f in firsts:
        for g in seconds:
            hist = [{"a": "from_swc", "r": 1, "order": []},                                   # objs 1 (lazy), 2 (pop)
                    {"a": "slice", "o": 2, "lo": f[0], "hi": f[1], "st": f[2]},                # 3 (nest)
                    {"a": "popof", "o": 3},                                                    # 4 (pop over the view)
                    {"a": "slice", "o": 4, "lo": g[0], "hi": g[1], "st": g[2]},                # 5 (nest of the view)
                    {"a": "len", "o": 5}, {"a": "iter", "o": 5}, {"a": "index", "o": 5, "key": -1}, {"a": "iter", "o": 4}]
            out.append({"dirs": dirs, "junk": {}, "hist": hist})
    return out


def zip_histories(ctx, q):
    """several flat directories sharing most of their file names (each with a name of its own), filled in different sequences: every row of the
    matched populations holds same-named files"""
    out = []
    common = ["n0", "n1", "n2", "n3", "n4", "n5", "n6"]
    for k in range(4 if q else 12):
        names = common[: 4 + k % 4]
        dirs = [names + ["only1"], ["only2"] + names[::-1], names[1:] + names[:1] + ["only3"]][: 2 + k % 2]
        m = len(names)
        hist = [{"a": "zip", "roots": list(range(1, len(dirs) + 1)), "order": []}]
        zs = 2 * len(dirs) + 1
        hist += [{"a": "zipindex", "o": zs, "key": key} for key in ([0, m - 1, -1, 1, -m] if k % 2 else list(range(m)))]
        hist += [{"a": "topop", "o": zs}, {"a": "len", "o": zs + 2}, {"a": "iter", "o": zs + 2}]
        out.append({"dirs": dirs, "junk": {}, "hist": hist})
    return out


def large_histories(ctx, q):
    """populations of a few hundred files walked twice (and indexed from both ends in between): 'at most once' has no size limit"""
    n1, n2 = (150, 140) if q else (400, 300)
    dirs = [["f%03d" % k for k in range(n1)], ["sub/g%03d" % k for k in range(n2)]]
    h1 = [{"a": "from_swc", "r": 1, "order": []}, {"a": "iter", "o": 2}, {"a": "index", "o": 2, "key": 0}, {"a": "index", "o": 2, "key": -1},
          {"a": "iter", "o": 2}, {"a": "index", "o": 1, "key": n1 // 2}]
    h2 = [{"a": "from_swc", "r": 1, "order": []}, {"a": "from_swc", "r": 2, "order": []}, {"a": "iter", "o": 2}, {"a": "iter", "o": 4},
          {"a": "index", "o": 2, "key": 3}, {"a": "slice", "o": 2, "lo": 99, "hi": 99, "st": -1}, {"a": "iter", "o": 5}, {"a": "iter", "o": 4}]
    return [{"dirs": dirs[:1], "junk": {}, "hist": h1}, {"dirs": dirs, "junk": {}, "hist": h2}]


def run(ctx):
    q = ctx.tier == "quick"
    ctx.mc("MC_Population", "MC_Population.%s.cfg" % ctx.tier, deadlock=False, coverage=False, timeout=3000)
    try:
        for cfg in (["MC_Population.gen.cfg", "MC_Population.genchain.cfg", "MC_Population.genslice.cfg"] if q else
                    ["MC_Population.gen.cfg", "MC_Population.gen4.cfg", "MC_Population.genchain.cfg", "MC_Population.genslice.cfg"]):
            cases = gen_histories(ctx, cfg)
            cap = 700 if q else 20000
            if len(cases) > cap:                      # TLC enumerated them all; the executor takes an evenly spread, seed-shifted sample
                step = len(cases) / float(cap)
                cases = [cases[int((i * step + ctx.seed) % len(cases))] for i in range(cap)]
            p = ctx.write_cases("hist-" + cfg.split(".")[1], cases)
            ctx.run_cases("hist-" + cfg.split(".")[1], cases, p, exec_hist, "Trace_Population", keyfn, nontrivial)
        sims = gen_histories(ctx, "MC_Population.sim.cfg", simulate="num=%d" % (400 if q else 6000), depth=9, seed=ctx.seed + 1)
        sims = sims[:(300 if q else 6000)]
        p = ctx.write_cases("simulated", sims)
        ctx.run_cases("simulated", sims, p, exec_hist, "Trace_Population", keyfn, nontrivial)
        ch = chain_histories(ctx, q)
        p = ctx.write_cases("chain-index-order", ch)
        ctx.run_cases("chain-index-order", ch, p, exec_hist, "Trace_Population", keyfn, nontrivial)
        vh = view_histories(ctx, q)
        p = ctx.write_cases("slices-of-views", vh)
        ctx.run_cases("slices-of-views", vh, p, exec_hist, "Trace_Population", keyfn, nontrivial)
        zh = zip_histories(ctx, q)
        p = ctx.write_cases("matched-directories", zh)
        ctx.run_cases("matched-directories", zh, p, exec_hist, "Trace_Population", keyfn, nontrivial)
        lh = large_histories(ctx, q)
        p = ctx.write_cases("large-populations", lh)
        ctx.run_cases("large-populations", lh, p, exec_hist, "Trace_Population", keyfn, nontrivial, per_case_timeout=300)
        fr = free_histories(ctx, 150 if q else 3000)
        p = ctx.write_cases("free", fr)
        ctx.run_cases("free", fr, p, exec_hist, "Trace_Population", keyfn, nontrivial)
    finally:
        WATCH["prefix"] = None
    ctx.assumptions += ["the order in which a population lists its files is read from the object (os.walk / set order is environment-dependent); it must be a permutation of the swc files",
                        "a read of element 0 by a Population constructor is permitted (the documented probe) but not demanded",
                        "each directory is opened by at most one population per history, so that reads counted per path are reads per population",
                        "reads are counted by sys.addaudithook on open() of *.swc under the scratch directory"]
    return ctx.finish(rule=RULE)


def replay(ctx, rec):
    c = rec["case"]
    p = ctx.write_cases("replay", [c])
    ctx.run_cases("replay", [c], p, exec_hist, "Trace_Population", keyfn)
    return ctx.finish(rule="replay of one recorded history")
