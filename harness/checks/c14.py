"""C14 — tree volume is the volume of the union of node spheres and connecting frusta (spec/VolTree.tla)."""
from harness import lib
import math
from fractions import Fraction
import numpy as np

RULE = ("cases = every collinear tree within the bounds (chains with the root at one end, roots with one arm on either side; radii 1..3, every "
        "admissible integer spacing up to max radius + 1: tangent, overlapping and disjoint neighbours) at accuracy levels 1, 2, 3, 4 (5, 6, 8, 9 for "
        "a sample of two-armed roots, mirror-symmetric ones included, where the Monte-Carlo pair term is exactly zero), levels 3-4 again at 2^20 / 2^21 from the origin, each at one of 7 placements and 3 length units, a third of them renumbered so that children precede their parents, through get_volume and the "
        "feature extractor; plus random trees of any shape on a lattice at levels 1 and 2; non-trivial = at least two nodes whose balls overlap or "
        "unequal radii; distinct by (tree, level)")
UNITS = [1.0, 0.5, 0.37, 1e-6, 2.5e4]          # the last two only in the extreme-units stage
DIRS = [(1, 0, 0), (0, 0, -1), (2 / 3, 2 / 3, 1 / 3), (0.6, 0.8, 0), (0.3, -0.5, 0.81), (0, 1, 0), (-2 / 7, 3 / 7, 6 / 7)]
ORGS = [(0, 0, 0), (5, -3, 2), (0, 0, 0), (-3, 4, 0.5), (1.5, -2.25, 3.0), (1, 1, 1), (0, 0, 0)]       # small offsets: the tree stores float32 coordinates
# far placements: axis directions at 2^20 / 2^21, where lattice coordinates in units 1 and 0.5 are still exact in float32
# (node spacing is then below 10^-5 of the coordinates: any comparison of positions relative to their size cannot tell neighbours apart)
DIRS += [(1, 0, 0), (0, 0, -1)]
ORGS += [(1048576, 0, 0), (0, 0, -2097152)]


def mk(pid, xyz, r):
    from swcgeom.core import Tree
    n = len(pid)
    xyz = np.asarray(xyz, dtype=np.float64)
    return Tree(n, source=lib.SRC, id=np.arange(n, dtype=np.int32), pid=np.array(pid, dtype=np.int32), type=np.full(n, 3, dtype=np.int32),
                x=xyz[:, 0].astype(np.float32), y=xyz[:, 1].astype(np.float32), z=xyz[:, 2].astype(np.float32), r=np.array(r, dtype=np.float32))


def execute(c):
    from swcgeom.analysis import get_volume
    from swcgeom.analysis.feature_extractor import extract_feature
    u = UNITS[c["unit"]]
    t = c["t"]
    if c["kind"] == "collinear":
        d = np.array(DIRS[c["place"]], dtype=np.float64); d /= np.linalg.norm(d)
        o = np.array(ORGS[c["place"]], dtype=np.float64)
        if c["unit"] >= 3:
            o = o * u            # the tree stores float32 coordinates: the offset is scaled with the unit, or it would swamp the spacings
        if "rnd" in c:           # a seeded random direction and a small offset
            rr = np.random.default_rng(c["rnd"])
            d = rr.normal(size=3); d /= np.linalg.norm(d)
            o = rr.uniform(-20, 20, size=3)
        xyz = [o + d * (row[1] * u) for row in t]
    else:
        xyz = [np.array(p, dtype=np.float64) * u for p in c["xyz"]]
    pid, rad = [row[0] for row in t], [row[2] * u for row in t]
    if lib.vid(c) % 3 == 1 and len(t) > 2:
        # the same tree under another numbering (root stays 0, the other nodes in reverse order: children then precede their parents)
        n = len(t)
        new = [0] + [n - i for i in range(1, n)]                 # old id -> new id
        old = sorted(range(n), key=lambda i: new[i])             # new id -> old id
        pid = [(-1 if pid[o] == -1 else new[pid[o]]) for o in old]
        xyz = [xyz[o] for o in old]
        rad = [rad[o] for o in old]
    tree = mk(pid, xyz, rad)
    if lib.vid(c) % 4 == 2:
        # a history: the same tree object was measured while one of its nodes had another radius and position (edited in place through its handle,
        # then restored in place): what is reported now is the volume of the tree as it is now
        nd = tree.node(lib.vid(c) % len(t))
        keep = (float(nd.r), float(nd.x))
        nd.r, nd.x = keep[0] * 1.5, keep[1] + 0.25 * u
        for lv in sorted({1, 2, c["level"]}):
            try:
                get_volume(tree, accuracy=lv)
                extract_feature(tree).get("volume", accuracy=lv)
            except Exception:        # noqa: BLE001 - only the measurement of the restored tree is judged
                pass
        nd.r, nd.x = keep
    is_chain = all(sum(1 for row in t if row[0] == i) <= 1 for i in range(len(t)))
    if c["level"] >= 3 and is_chain and lib.vid(c) % 5 == 0:
        v = float(extract_feature(tree).get("volume")[0])          # default accuracy; no pair term on a chain
    elif lib.vid(c) % 5 == 1 and c["level"] <= 4:
        # one extractor object asked at two explicit accuracy levels, and in the list / dict forms: the second answer is the one judged
        fe = extract_feature(tree)
        fe.get("volume", accuracy=(1 if c["level"] != 1 else 2))
        fe.get([("volume", {"accuracy": 3 if c["level"] != 3 else 2})])
        v = float(fe.get({"volume": {"accuracy": c["level"]}})["volume"][0]) if lib.vid(c) % 2 else float(fe.get("volume", accuracy=c["level"])[0])
    else:
        v = float(get_volume(tree, accuracy=c["level"]))
    exp = sum(Fraction(p[0], p[1]) for p in c["parts"])
    return {"ratio": int(max(-1e9, min(2e9, round(v / (math.pi * u ** 3 * float(exp)) * 1e9))))}


def keyfn(c, o, why):
    return why


def nontrivial(c):
    t = c["t"]
    return len(t) >= 2 and (len({row[2] for row in t}) > 1 or c["kind"] != "collinear" or any(
        t[j][0] != -1 and abs(t[j][1] - t[t[j][0]][1]) < t[j][2] + t[t[j][0]][2] for j in range(len(t))))


def norm(fr):
    return [fr.numerator, fr.denominator]


def lattice_cases(ctx, count):
    rng = ctx.rng
    out = []
    for k in range(count):
        n = rng.randint(2, 9)
        pid = [-1] + [rng.randrange(0, i) for i in range(1, n)]
        rad = [rng.randint(1, 4) for _ in range(n)]
        pos = [(0, 0, 0)]
        t = [[-1, 0, rad[0]]]
        for i in range(1, n):
            L = rng.randint(1, 6)
            ax = rng.randrange(3); sg = rng.choice([-1, 1])
            p = list(pos[pid[i]]); p[ax] += sg * L
            pos.append(tuple(p)); t.append([pid[i], L, rad[i]])
        level = 1 + k % 2
        parts = [norm(Fraction(4 * r ** 3, 3)) for r in rad]
        if level == 2:
            parts += [norm(Fraction(t[i][1] * (rad[pid[i]] ** 2 + rad[pid[i]] * rad[i] + rad[i] ** 2), 3)) for i in range(1, n)]
        out.append({"kind": "lattice", "t": t, "xyz": [list(p) for p in pos], "level": level, "parts": parts, "place": 0, "unit": k % 3})
    return out


def run(ctx):
    q = ctx.tier == "quick"
    cases, path = ctx.gen("Gen_VolTree", "Gen_VolTree.%s.cfg" % ctx.tier)     # ASSUME: per-compartment sweep = exact union, overlapping/tangent neighbours in the domain
    ctx.run_cases("collinear", cases, path, execute, "Judge_VolTree", keyfn, nontrivial, per_case_timeout=300)
    # Monte-Carlo-bearing levels on two-armed roots (pair term exactly 0: the arms only share the disc through the root) - expensive, so a sample
    two = [c for c in cases if sum(1 for row in c["t"] if row[0] == 0) == 2 and c["level"] >= 3]
    def symmetric(c):          # both arms of the same length ending in the same radius (mirror images of each other)
        kids = [row for row in c["t"] if row[0] == 0]
        return kids[0][1] == -kids[1][1] and kids[0][2] == kids[1][2]
    sym = [c for c in two if symmetric(c)]
    asym = [c for c in two if not symmetric(c)]
    pick = sym[:: max(1, len(sym) // (8 if q else 40))][: (8 if q else 40)] + asym[:: max(1, len(asym) // (6 if q else 40))][: (6 if q else 40)]
    sample = [dict(c, level=lv) for c, lv in zip(pick, [5, 8, 6, 9] * 50)]
    p = ctx.write_cases("mc-levels", sample)
    ctx.run_cases("mc-levels", sample, p, execute, "Judge_VolTree", keyfn, nontrivial, per_case_timeout=600)
    deep = [c for c in cases if c["level"] >= 3]
    far = [dict(c, place=7 + k % 2, unit=k % 2) for k, c in enumerate(deep[:: (3 if q else 1)])]
    p = ctx.write_cases("far-from-origin", far)
    ctx.run_cases("far-from-origin", far, p, execute, "Judge_VolTree", keyfn, nontrivial, per_case_timeout=300)
    ext = [dict(c, unit=3 + k % 2) for k, c in enumerate(deep[:: (3 if q else 1)])]
    p = ctx.write_cases("extreme-units", ext)
    ctx.run_cases("extreme-units", ext, p, execute, "Judge_VolTree", keyfn, nontrivial, per_case_timeout=300)
    rnd = [dict(c, rnd=ctx.seed * 100003 + 11 * k + j) for k, c in enumerate(cases) for j in range(1 if q else 4)]
    if q:
        rnd = rnd[::4]
    p = ctx.write_cases("random-orientations", rnd)
    ctx.run_cases("random-orientations", rnd, p, execute, "Judge_VolTree", keyfn, nontrivial, per_case_timeout=300)
    lc = lattice_cases(ctx, 150 if q else 2000)
    # a tree of a single node is a ball, at every level
    lc += [{"kind": "lattice", "t": [[-1, 0, r]], "xyz": [[2, -1, 3]], "level": lv, "parts": [norm(Fraction(4 * r ** 3, 3))], "place": 0, "unit": (r + lv) % 3}
           for r in (1, 2, 3) for lv in (1, 2, 3, 4, 5)]
    p = ctx.write_cases("lattice", lc)
    ctx.run_cases("lattice", lc, p, execute, "Judge_VolTree", keyfn, nontrivial)
    ctx.notes["spec_level"] = ("ASSUME in Gen_VolTree (TLC, exact rationals): for every compartment (rA, rB, L >= both) what the sweep contributes - two half balls + frustum "
                               "- (ball A n frustum) - (ball B n frustum) - equals the integral of the maximal cross-section")
    ctx.assumptions += ["the exact parts (one rational per node / compartment) are produced by TLC; the executor sums them in floating point and reports the ratio "
                        "observed / expected, which TLC judges with relative tolerance 2e-5 (the tree stores float32 coordinates)",
                        "32-bit integers in TLC limit the exactly decided compartments to radii 1..3 with spacing up to 4 length units; other sizes are reached through the unit {1, 0.5, 0.37}",
                        "levels 5-9 are only exercised where the Monte-Carlo pair term is exactly zero (chains, opposite arms); level 10 (Monte-Carlo only) is not claimed"]
    return ctx.finish(rule=RULE)


def replay(ctx, rec):
    c = rec["case"]
    p = ctx.write_cases("replay", [c])
    ctx.run_cases("replay", [c], p, execute, "Judge_VolTree", keyfn, per_case_timeout=600)
    return ctx.finish(rule="replay of one recorded case")
