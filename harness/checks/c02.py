"""C02 — SWC reading keeps every data row, in order, or fails loudly (spec/SwcIO.tla)."""
import json
from harness.checks import swcio

RULE = ("cases = every table (single-rooted with the root row anywhere, and forests) over the id sequences, rendered as data rows with every "
        "float spelling and 0-2 extra fields, with non-data lines (comments, the column header, blank lines, 16 malformed kinds, an undecodable "
        "byte) inserted at every position; read options x source kind x entry point x newline convention x final newline x 8KiB padding "
        "assigned round-robin over all 576 combinations; non-trivial = the file has a non-data line or a trailing field or is not already "
        "in normal form; distinct by (file, options)")


def keyfn(c, o, why):
    kinds = sorted({ln["k"] for ln in c["file"]})
    bad = [ln for ln in c["file"] if ln["k"] in ("M", "U")]
    sig = "bad" if bad else "clean"
    return "read:%s:%s:mode%d" % (why, sig, c["o"]["mode"])


def nontrivial(c):
    return any(ln["k"] != "D" for ln in c["file"]) or any(ln["k"] == "D" and ln["ex"] for ln in c["file"]) or c["o"]["mode"] != 2


def free_cases(ctx, count):
    """larger files assembled by a seeded driver from the same line kinds (judged by the same TLA+ module)"""
    rng = ctx.rng
    TOK = ["0", "1", "+2", "-3", "-0", "1e0", ".5", "5.", "1.5E+1", "-2.25", "0.0001", "12.3456", "1e-2", "7", "8.5", "9", "1E2", "-.25"]
    VAL = [0, 10000, 20000, -30000, 0, 10000, 5000, 50000, 150000, -22500, 1, 123456, 100, 70000, 85000, 90000, 1000000, -2500]
    XT = [1, 2, 3, 6, 7, 8, 9, 10, 11, 12, 13, 14, 15, 16, 17]
    good = [{"k": "C", "lead": 1, "body": "hello", "hdr": 0}, {"k": "C", "lead": 0, "body": "x y", "hdr": 0}, {"k": "C", "lead": 0, "body": "", "hdr": 0},
            {"k": "C", "lead": 1, "body": "id type x y z r pid", "hdr": 1}, {"k": "B", "sp": 0}, {"k": "B", "sp": 1}, {"k": "B", "sp": 2}, {"k": "B", "sp": 3}]
    bad = [{"k": "M", "toks": t} for t in (["40", "1", "0", "0", "0", "1"], ["40", "1", "abc", "0", "0", "1", "1"], ["-4", "1", "0", "0", "0", "1", "1"],
                                           ["4", "1", "0", "0", "0", "1", "1", "zz"], ["n", "5", "2", "4", "4", "4", "1", "4"], ["5.7", "2", "4", "4", "4", "1", "4", "4"],
                                           ["4", "1", "0", "0", "0", "1", "1e"], ["4", "1", "0", "0", "0", "1", "--1"])] + [{"k": "U", "lead": 1, "body": "caf?", "hdr": 0}]
    out = []
    for _ in range(count):
        n = rng.randint(4, 15)
        ids = rng.sample(range(0, 60), n)
        par = [-1] + [rng.randrange(0, i) for i in range(1, n)]
        order = list(range(n)); rng.shuffle(order)
        exn = rng.choice([0, 0, 1, 2])
        rows = []
        for k, a in enumerate(order):
            fi = [XT[k], rng.randrange(18), rng.randrange(18), rng.choice([1, 6, 7, 8, 11, 13])]
            exi = [rng.randrange(18) for _ in range(exn + (rng.random() < 0.3))]
            ln = {"k": "D", "id": ids[a], "ty": rng.randrange(8), "fv": [VAL[j] for j in fi], "ft": [TOK[j] for j in fi],
                  "pid": -1 if par[a] == -1 else ids[par[a]], "ex": [VAL[j] for j in exi], "ext": [TOK[j] for j in exi], "sp": rng.randint(1, 4)}
            ln["toks"] = [str(ln["id"]), str(ln["ty"])] + ln["ft"] + [str(ln["pid"])] + ln["ext"]
            rows.append(ln)
        file = list(rows)
        for _ in range(rng.randint(0, 6)):
            file.insert(rng.randint(0, len(file)), dict(rng.choice(good)))
        nbad = rng.choice([0, 0, 1, 1, 2, 3])
        for _ in range(nbad):
            file.insert(rng.randint(0, len(file)), dict(rng.choice(bad)))
        minex = min(len(r["ex"]) for r in rows)
        o = {"nex": 1 if minex >= 1 and rng.random() < 0.5 else 0, "mode": rng.randrange(3), "enc": rng.choice(["utf-8", "latin-1"]),
             "src": rng.randrange(3), "entry": rng.randrange(2), "nl": rng.randrange(2), "term": rng.randrange(2), "pad": 0}
        out.append({"op": "read", "file": file, "o": o})
    return out


def run(ctx):
    ctx.mc("MC_SwcIO", "MC_SwcIO.%s.cfg" % ctx.tier,
           expect_actions=["ReadData", "ReadComment", "ReadBlank", "RaiseInvalid", "RaiseDecode", "EndLoop", "ExitCtx", "FinishStep"])
    ctx.mc_expect_violation("MC_SwcIO", "MC_SwcIO.swallow.cfg", "Loud")
    cases, path = ctx.gen("Gen_SwcIO", "Gen_SwcIO.%s.cfg" % ctx.tier)
    reads = [c for c in cases if c["op"] == "read"]
    try:
        ctx.run_cases("enumerated", reads, path, swcio.execute, "Judge_SwcIO", keyfn, nontrivial)
        # the reader loop itself, line by line: the stream logs every hand-out, the end, and close(); Trace_SwcIO replays the state machine
        ev = [c for c in reads if c["o"]["pad"] == 0 and not any(ln["k"] == "U" for ln in c["file"])]
        ctx.run_cases("line-events", ev, path, swcio.exec_line_events, "Trace_SwcIO", lambda c, o, w: "loop:" + w, nontrivial)
        fc = free_cases(ctx, 300 if ctx.tier == "quick" else 5000)
        p = ctx.write_cases("free", fc)
        ctx.run_cases("free", fc, p, swcio.execute, "Judge_SwcIO", keyfn, nontrivial)
        ev2 = [c for c in fc if not any(ln["k"] == "U" for ln in c["file"])]
        ctx.run_cases("line-events-free", ev2, p, swcio.exec_line_events, "Trace_SwcIO", lambda c, o, w: "loop:" + w, nontrivial)
    finally:
        swcio.cleanup()
    ctx.assumptions += ["a trailing carriage return left in a comment by a text stream that was opened without newline translation is ignored",
                        "rows are identified by their x value (pairwise distinct by construction) when node sorting is requested",
                        "malformed kinds are those the statement names (too few fields, a non-numeric token) plus signed / fractional ids and types; "
                        "a fractional parent id is not generated (the reader takes its fraction as an ignored trailing field)",
                        "warnings other than the ignored-fields warning are not judged"]
    return ctx.finish(rule=RULE)


def replay(ctx, rec):
    c = rec["case"]
    p = ctx.write_cases("replay", [c])
    try:
        ctx.run_cases("replay", [c], p, swcio.execute, rec.get("judge", "Judge_SwcIO"), keyfn)
    finally:
        swcio.cleanup()
    return ctx.finish(rule="replay of one recorded case")
