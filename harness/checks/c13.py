"""C13 — closed-form volumes of the primitives equal the true geometric volume (spec/VolPrim.tla)."""
from harness import lib
import math
import numpy as np

RULE = ("cases = every point of the integer grid (radii, heights 1..G; distances 0..2G+1; cap heights 0..2r) for sphere, cap, frustum, two-sphere "
        "intersection and union, sphere-frustum intersection and union (every branch of the case analysis and every boundary between branches, "
        "tangent and nested configurations); each evaluated by the real library at one of 7 placements (again at atlas-sized coordinates of 10^4-10^5; half of the sphere-frustum cases on a "
        "frustum object that was asked about other spheres before) (axis directions incl. oblique and generic, "
        "frustum given from either end, offsets) and one of 3 length units (volumes scale by unit^3); non-trivial = a two-object case; "
        "distinct by (kind, parameters)")
UNITS = [1.0, 0.5, 0.37, 1e-6, 2.5e4, 40.0]          # the last two only in the extreme-units stage (metres for micrometres; very large solids)
DIRS = [(1, 0, 0), (0, 0, -1), (2 / 3, 2 / 3, 1 / 3), (0.6, 0.8, 0), (0.3, -0.5, 0.81), (0, 1, 0), (-2 / 7, 3 / 7, 6 / 7)]
ORGS = [(0, 0, 0), (5, -3, 2), (0, 0, 0), (-11, 4, 0.5), (100, 200, -300), (1, 1, 1), (0, 0, 0)]
# far placements (atlas-sized coordinates): the volume of a solid does not depend on where it sits
FAR = [(43210.7, -98765.4, 12345.6), (-250000.25, 0.5, 80000.125)]


def execute(c):
    from swcgeom.utils.volumetric_object import VolSphere, VolFrustumCone
    u = UNITS[c["unit"]]
    d = np.array(DIRS[c["place"]], dtype=np.float64); d /= np.linalg.norm(d)
    o = np.array(ORGS[c["place"]], dtype=np.float64)
    if "far" in c:
        o = o + np.array(FAR[c["far"]], dtype=np.float64)
    if "rnd" in c:                      # a seeded random orientation and offset
        rr = np.random.default_rng(c["rnd"])
        d = rr.normal(size=3); d /= np.linalg.norm(d)
        o = rr.uniform(-500, 500, size=3)
    rev = c["place"] >= 5
    k, a, b, cc = c["k"], c["a"] * u, c["b"] * u, c["c"] * u
    if "int" in c:
        # centres given as narrow integer arrays (voxel indices): axis-aligned placement, unit 40, so that every coordinate is an integer
        it = [np.int16, np.int32, np.int64][c["int"]]
        d = np.array(DIRS[c["place"]], dtype=np.int64)
        o = np.array(ORGS[c["place"]], dtype=np.int64)
        mk = lambda v: np.array(v, dtype=it)
        cc = int(round(cc))
        o, d = mk(o), mk(d)
    # every centre is handed over in its own buffer; in a third of the cases the caller re-uses (overwrites) those buffers once the solids are built:
    # a solid is what it was built as, whatever happens to the arrays it was built from
    bufs = []

    def buf(v):
        w = np.array(v)
        bufs.append(w)
        return w

    def built():
        if lib.vid(c) % 3 == 1:
            for w in bufs:
                w += 1000 if w.dtype.kind == "i" else 1234.5
                w *= 3

    if k == "sphere":
        s = VolSphere(buf(o), a); built()
        v = s.get_volume()
    elif k == "cap":
        s = VolSphere(buf(o), a); built()
        v = s.get_volume_spherical_cap(b)
    elif k == "frustum":
        f = VolFrustumCone(buf(o + d * cc), b, buf(o), a) if rev else VolFrustumCone(buf(o), a, buf(o + d * cc), b)
        built()
        v = f.get_volume()
    elif k in ("lens", "union2"):
        s1, s2 = VolSphere(buf(o), a), VolSphere(buf(o + d * cc), b)
        built()
        if rev:
            v = (s2.intersect(s1) if k == "lens" else s2.union(s1)).get_volume()
        else:
            v = (s1.intersect(s2) if k == "lens" else s1.union(s2)).get_volume()
    else:
        hist_f = lib.vid(c) % 2 == 1             # history on the frustum (short-lived spheres) or on the sphere (short-lived frusta)
        s = None if hist_f else VolSphere(buf(o), a)
        if not hist_f:
            # a history: the same sphere object was first asked about short-lived frusta of other lengths and tapers (each freed before the next is made)
            for j in range(1, 4):
                g = VolFrustumCone(o, a, o + d * (cc * (j + 1)), b * j / 2)
                s.intersect(g).get_volume()
                s.union(g).get_volume()
                del g
        f = VolFrustumCone(buf(o + d * cc), b, buf(o), a) if rev else VolFrustumCone(buf(o), a, buf(o + d * cc), b)
        built()
        if hist_f:
            # a history: the same frustum object was first asked about short-lived spheres on its other end and on this end; the sphere that is
            # judged is made afterwards (it may well get the address of one that is gone)
            VolSphere(f.c1 if rev else f.c2, b).intersect(f).get_volume()
            VolSphere(f.c1 if rev else f.c2, b).union(f).get_volume()
            VolSphere(f.c2 if rev else f.c1, a).intersect(f).get_volume()
            s = VolSphere(buf(np.array(f.c2 if rev else f.c1)), a)
            built()
        if k == "sphfru":
            v = s.intersect(f).get_volume()
        else:
            v = (f.union(s) if lib.vid(c) % 2 else s.union(f)).get_volume()
    v = float(v) / (math.pi * u ** 3)
    num, den = c["exp"]
    r = v * 1e9 if num == 0 else v / (num / den) * 1e9
    return {"ratio": int(max(-1e9, min(2e9, round(r))))}


def keyfn(c, o, why):
    return why


def nontrivial(c):
    return c["k"] not in ("sphere", "cap", "frustum")


def run(ctx):
    cases, path = ctx.gen("Gen_VolPrim", "Gen_VolPrim.%s.cfg" % ctx.tier)       # ASSUME: Code = Truth on the whole grid, every region reached
    ctx.run_cases("grid", cases, path, execute, "Judge_VolPrim", keyfn, nontrivial)
    ext = [dict(c, unit=3 + k % 2) for k, c in enumerate(cases)][:: (2 if ctx.tier == "quick" else 1)]
    p = ctx.write_cases("extreme-units", ext)
    ctx.run_cases("extreme-units", ext, p, execute, "Judge_VolPrim", keyfn, nontrivial)
    ints = [dict(c, unit=5, place=[0, 1, 5][k % 3], int=k % 3) for k, c in enumerate(cases) if c["k"] not in ("sphere", "cap")][:: (2 if ctx.tier == "quick" else 1)]
    p = ctx.write_cases("integer-centres", ints)
    ctx.run_cases("integer-centres", ints, p, execute, "Judge_VolPrim", keyfn, nontrivial)
    rnd = [dict(c, rnd=ctx.seed * 100003 + 7 * k + j) for k, c in enumerate(cases) if c["k"] not in ("sphere", "cap") for j in range(1 if ctx.tier == "quick" else 6)]
    if ctx.tier == "quick":
        rnd = rnd[::2]
    p = ctx.write_cases("random-orientations", rnd)
    ctx.run_cases("random-orientations", rnd, p, execute, "Judge_VolPrim", keyfn, nontrivial)
    far = [dict(c, far=k % 2) for k, c in enumerate(cases) if c["k"] not in ("sphere", "cap")][:: (2 if ctx.tier == "quick" else 1)]
    p = ctx.write_cases("far-from-origin", far)
    ctx.run_cases("far-from-origin", far, p, execute, "Judge_VolPrim", keyfn, nontrivial)
    ctx.notes["spec_level"] = "ASSUME in Gen_VolPrim (TLC, exact rationals): the code's formulas and five-way case analysis equal the defining integrals on the whole grid; every region and the region boundaries are on the grid"
    ctx.assumptions += ["volumes are compared as the ratio observed / (pi * unit^3 * exact rational) with relative tolerance 5e-8 (5e-6 where the library's random "
                        "unit vector enters); the ratio is formed by the executor from the expected value TLC generated, and TLC checks that this value is the integral",
                        "real-valued parameters are reached through the length unit and the placement only (rational grid x {1, 0.5, 0.37})"]
    return ctx.finish(rule=RULE)


def replay(ctx, rec):
    c = rec["case"]
    p = ctx.write_cases("replay", [c])
    ctx.run_cases("replay", [c], p, execute, "Judge_VolPrim", keyfn)
    return ctx.finish(rule="replay of one recorded case")
