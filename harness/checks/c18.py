"""C18 — topology diagnosis and root repair tell the truth about any parent table (spec/Dsu.tla, Checkers.tla)."""
import io, os, shutil, warnings
import numpy as np

RULE = ("(a) every history of at most L union/find/same operations on 4 elements and every sequence of unions followed by finds of all elements, "
        "replayed on a real DisjointSetUnion with the representatives read back after every call and validated event by event by Trace_Dsu; "
        "random and tournament-shaped histories on 8-64 elements; recorded traces of the structure inside has_cyclic on random tables; "
        "(b) every parent table (forests, cycles, self-loops) up to the bound for the four checkers, under a timeout; random larger tables; "
        "(c) every multi-root forest up to the bound in every arrangement on a line, for the repair modes off / somas / nearest, through read_swc "
        "and through the normaliser functions, with id bases {0,1,7,100}; random forests in the plane; "
        "non-trivial = history with a union, table with at least 3 rows, forest with at least 3 rows; distinct by case content")


def reps_of(d):
    par = d.element_parent
    n = len(par)
    out = []
    for e in range(n):
        x, fuel = e, n + 1
        while 0 <= x < n and par[x] != x and fuel > 0:
            x = par[x]; fuel -= 1
        out.append(int(x) if fuel > 0 and 0 <= x < n else -1)
    return out


def exec_dsu(c):
    from swcgeom.utils import DisjointSetUnion
    d = DisjointSetUnion(c["n"])
    events = []
    for op, a, b in c["ops"]:
        if op == "U":
            d.union_sets(a, b); res = 0
        elif op == "S":
            res = int(bool(d.is_same_set(a, b)))
        else:
            res = int(d.find_parent(a))
        events.append([op, a, b, res, reps_of(d)])
    return {"events": events}


def exec_dsu_rec(c):
    """record the disjoint-set structure that has_cyclic uses internally (public calls only), plus the answer"""
    import swcgeom.core.swc_utils.checker as checker
    from swcgeom.utils import DisjointSetUnion
    events = []

    class Logged(DisjointSetUnion):
        depth = 0

        def union_sets(self, a, b):
            Logged.depth += 1
            try:
                return super().union_sets(a, b)
            finally:
                Logged.depth -= 1
                if Logged.depth == 0:
                    events.append(["U", int(a), int(b), 0, reps_of(self)])

        def is_same_set(self, a, b):
            Logged.depth += 1
            try:
                r = super().is_same_set(a, b)
            finally:
                Logged.depth -= 1
            if Logged.depth == 0:
                events.append(["S", int(a), int(b), int(bool(r)), reps_of(self)])
            return r
    old = checker.DisjointSetUnion
    checker.DisjointSetUnion = Logged
    try:
        P = c["P"]
        ans = checker.has_cyclic((np.arange(len(P)), np.array(P)))
    finally:
        checker.DisjointSetUnion = old
    return {"events": events, "answer": int(bool(ans))}


SCRATCH = None


def lib_vid(c):
    from harness import lib as _lib
    return _lib.vid(c)


def exec_check(c):
    import pandas as pd
    from swcgeom.core.swc_utils import is_single_root, has_cyclic, is_sorted, is_bifurcate
    P = c["P"]
    n = len(P)
    base = c.get("base", 0)
    ids = np.arange(n, dtype=np.int64)
    pid = np.array(P, dtype=np.int64)
    # a table is a set of (id, parent id) pairs: two cases in three list the rows in another order (reversed / rotated)
    k = lib_vid(c) % 3
    order = np.arange(n) if k == 0 else (np.arange(n)[::-1].copy() if k == 1 else np.roll(np.arange(n), n // 2 + 1))
    ids, pid = ids[order], pid[order]
    sid = ids + base
    spid = np.where(pid == -1, -1, pid + base)
    df = pd.DataFrame({"id": sid, "type": np.ones(n, dtype=np.int64), "x": np.zeros(n), "y": np.zeros(n), "z": np.zeros(n), "r": np.ones(n), "pid": spid})
    if lib_vid(c) % 4 == 2:
        df = df.iloc[::-1].iloc[::-1] if n < 2 else pd.concat([df.iloc[n // 2:], df.iloc[:n // 2]]).iloc[np.r_[n - n // 2:n, 0:n - n // 2]]     # same rows, same order, index labels kept from the pieces
        df.index = df.index + 3
    return {"single": int(bool(is_single_root(df))), "cyclic": int(bool(has_cyclic((ids, pid)))),
            "sorted": int(bool(is_sorted((sid, spid)))), "bifex": int(bool(is_bifurcate((sid, spid)))),
            "bifall": int(bool(is_bifurcate((sid, spid), exclude_root=False)))}


def exec_repair(c):
    from swcgeom.core.swc_utils import read_swc, mark_roots_as_somas, link_roots_to_nearest, reset_index
    F, pos, mode, base = c["P"], c["pos"], c["mode"], c.get("base", 0)
    n = len(F)
    ys = c.get("ys", [0] * n)
    ty = [2 + k % 3 for k in range(n)]
    text = "".join("%d %d %s %s 0 %d %d\n" % (base + k, ty[k], pos[k], ys[k], 1 + k, -1 if F[k] == -1 else base + F[k]) for k in range(n))
    via = ["read", "fn", "read_noreset"][c.get("via", 0) % 3]
    path = None
    if via == "read" and lib_vid(c) % 2:
        # the file is on disk (one and the same path for every case) and is read again, plainly, after the read that repairs it
        import tempfile
        global SCRATCH
        if SCRATCH is None:
            SCRATCH = tempfile.mkdtemp(prefix="verif_c18_")
        path = os.path.join(SCRATCH, "forest.swc")
        with open(path, "w") as f:
            f.write(text)
    with warnings.catch_warnings(record=True) as ws:
        warnings.simplefilter("always")
        if via == "read":
            df, _ = read_swc(path if path else io.StringIO(text), fix_roots={"off": False}.get(mode, mode))
        elif via == "read_noreset":
            df, _ = read_swc(io.StringIO(text), fix_roots={"off": False}.get(mode, mode), reset_index=False)
        else:
            df0, _ = read_swc(io.StringIO(text), reset_index=False)
            before = df0.copy()
            df = {"off": reset_index, "somas": mark_roots_as_somas, "nearest": link_roots_to_nearest}[mode](df0)
            if not df0.equals(before):
                return {"R": [], "attrok": 0, "warned": 0, "via": via, "note": "copying normaliser modified its input"}
    warned = int(len(ws) > 0)          # "with a warning": any warning, whatever its text or category
    idl = [int(v) for v in df["id"]]
    R = [(-1 if int(p) == -1 else (idl.index(int(p)) if int(p) in idl else -2)) for p in df["pid"]]
    first = min(k for k in range(n) if F[k] == -1)
    shift = base if (via == "read" or (via == "fn" and mode == "off")) else 0
    ok = len(df) == n
    if ok:
        for k in range(n):
            tk = int(df["type"].iloc[k])
            tyok = tk == ty[k] or (mode == "somas" and F[k] == -1 and k != first and tk == 1)
            if not (idl[k] == base + k - shift and tyok and float(df["x"].iloc[k]) == pos[k] and float(df["y"].iloc[k]) == ys[k]
                    and float(df["z"].iloc[k]) == 0 and float(df["r"].iloc[k]) == 1 + k):
                ok = False
    R2, warned2 = [], 0
    if path:
        with warnings.catch_warnings(record=True) as ws2:
            warnings.simplefilter("always")
            df2, _ = read_swc(path, fix_roots=False, reset_index=False)
        warned2 = int(len(ws2) > 0)
        idl2 = [int(v) for v in df2["id"]]
        R2 = [(-1 if int(p) == -1 else (idl2.index(int(p)) if int(p) in idl2 else -2)) for p in df2["pid"]]
    return {"R": R, "attrok": int(ok), "warned": warned, "via": "read" if via.startswith("read") else "fn", "R2": R2, "warned2": warned2}


def execute(c):
    return {"dsu": exec_dsu, "dsu_rec": exec_dsu_rec, "check": exec_check, "repair": exec_repair}[c["op"]](c)


def keyfn(c, o, why):
    if c["op"] == "repair":
        return "repair-%s:%s" % (c["mode"], why)
    return "%s:%s" % (c["op"], why)


def nontrivial(c):
    if c["op"] in ("dsu",):
        return any(op[0] == "U" and op[1] != op[2] for op in c["ops"])
    return len(c["P"]) >= 3


def free_dsu(ctx, count):
    rng = ctx.rng
    out = []
    for t in range(count):
        n = rng.choice([8, 8, 9, 16, 17, 32, 64])
        ops = []
        if t % 2 == 0:      # tournament order: equal-rank merges build the deepest trees, then find the deepest elements
            els = list(range(n)); rng.shuffle(els)
            groups = [[e] for e in els]
            while len(groups) > 1:
                nxt = []
                for j in range(0, len(groups) - 1, 2):
                    a, b = groups[j], groups[j + 1]
                    ops.append(["U", rng.choice(b), rng.choice(a)] if rng.random() < 0.5 else ["U", rng.choice(a), rng.choice(b)])
                    nxt.append(a + b)
                if len(groups) % 2:
                    nxt.append(groups[-1])
                groups = nxt
                if rng.random() < 0.3:
                    ops.append(["S", rng.randrange(n), rng.randrange(n)])
            for e in rng.sample(range(n), n):
                ops.append(["F", e, 0])
                if rng.random() < 0.5:
                    ops.append(["S", e, rng.randrange(n)])
        else:
            for _ in range(rng.randint(n, 4 * n)):
                r = rng.random()
                if r < 0.5:
                    ops.append(["U", rng.randrange(n), rng.randrange(n)])
                elif r < 0.75:
                    ops.append(["S", rng.randrange(n), rng.randrange(n)])
                else:
                    ops.append(["F", rng.randrange(n), 0])
        out.append({"op": "dsu", "n": n, "ops": ops})
    return out


def random_table(rng, n, kind):
    if kind == "tree":
        return [-1] + [rng.randrange(0, i) for i in range(1, n)]
    if kind == "forest":
        return [(-1 if (i == 0 or rng.random() < 0.15) else rng.randrange(0, i)) for i in range(n)]
    P = [rng.randrange(-1, n) for _ in range(n)]            # anything: cycles, self-loops, forests
    if kind == "onecycle":
        P = [-1] + [rng.randrange(0, i) for i in range(1, n)]
        a = rng.randrange(1, n)
        anc = a
        for _ in range(rng.randint(0, 5)):
            if P[anc] > 0:
                anc = P[anc]
        P[anc] = a if rng.random() < 0.7 else P[anc]
    return P


def free_tables(ctx, count, nmax):
    rng = ctx.rng
    out = []
    for t in range(count):
        n = rng.randint(6, nmax)
        perm = list(range(n)); rng.shuffle(perm)
        P0 = random_table(rng, n, ["tree", "forest", "any", "onecycle"][t % 4])
        P = [0] * n
        for i in range(n):
            P[perm[i]] = -1 if P0[i] == -1 else perm[P0[i]]
        out.append({"op": "check", "P": P, "base": rng.choice([0, 1, 50])})
    return out


def free_forests(ctx, count, nmax):
    rng = ctx.rng
    out = []
    for t in range(count):
        n = rng.randint(4, nmax)
        F = [(-1 if (i == 0 or rng.random() < 0.35) else rng.randrange(0, i)) for i in range(n)]
        if F.count(-1) < 2:
            F[rng.randrange(1, n)] = -1
        if t % 3 == 0:       # first root not in the first row
            perm = list(range(n)); rng.shuffle(perm)
            G = [0] * n
            for i in range(n):
                G[perm[i]] = -1 if F[i] == -1 else perm[F[i]]
            F = G
        pts = rng.sample([(x, y) for x in range(-6, 7) for y in range(-6, 7)], n)
        out.append({"op": "repair", "P": F, "pos": [p[0] for p in pts], "ys": [p[1] for p in pts], "mode": ["off", "somas", "nearest", "nearest"][t % 4],
                    "base": rng.choice([0, 1, 7, 100]), "via": rng.randrange(3)})
    return out


def run(ctx):
    q = ctx.tier == "quick"
    # specification level
    ctx.mc("MC_Dsu", "MC_Dsu.quick.cfg", coverage=False)                                  # N = 4 with the union history: SameOK against connectivity
    ctx.mc("MC_Dsu", "MC_Dsu.quick6.cfg" if q else "MC_Dsu.thorough.cfg", coverage=False, timeout=3000)
    ctx.mc_expect_violation("MC_Dsu", "MC_Dsu.nofind.cfg", "SameOK")
    ctx.mc("MC_Checkers", "MC_Checkers.jump.%s.cfg" % ctx.tier, expect_actions=["Jump", "EndPass"])
    ctx.mc("MC_Checkers", "MC_Checkers.cyc.%s.cfg" % ctx.tier, expect_actions=["CycRow", "CycEnd"])
    # disjoint-set histories -> real object -> trace validation
    cases, path = ctx.gen("Gen_Dsu", "Gen_Dsu.%s.cfg" % ctx.tier, name="dsu")
    ctx.run_cases("dsu-histories", cases, path, execute, "Trace_Dsu", keyfn, nontrivial)
    fd = free_dsu(ctx, 60 if q else 1500)
    p = ctx.write_cases("dsu-free", fd)
    ctx.run_cases("dsu-free", fd, p, execute, "Trace_Dsu", keyfn, nontrivial)
    # tables and forests
    cases, path = ctx.gen("Gen_Checkers", "Gen_Checkers.%s.cfg" % ctx.tier, name="tables")      # its ASSUMEs check the repair algorithms at specification level
    ctx.run_cases("tables-and-forests", cases, path, execute, "Judge_Checkers", keyfn, nontrivial, per_case_timeout=10)
    ft = free_tables(ctx, 200 if q else 4000, 14 if q else 40) + free_forests(ctx, 400 if q else 8000, 9 if q else 14)
    p = ctx.write_cases("tables-free", ft)
    ctx.run_cases("tables-free", ft, p, execute, "Judge_Checkers", keyfn, nontrivial, per_case_timeout=10)
    # recorded traces of the structure inside has_cyclic
    rec = [{"op": "dsu_rec", "n": len(c["P"]), "P": c["P"], "ops": []} for c in free_tables(ctx, 40 if q else 400, 60 if q else 200)]
    p = ctx.write_cases("has_cyclic-recorded", rec)
    ctx.run_cases("has_cyclic-recorded", rec, p, execute, "Trace_Dsu", keyfn, nontrivial)
    if SCRATCH and os.path.isdir(SCRATCH):
        shutil.rmtree(SCRATCH, ignore_errors=True)
    ctx.assumptions += ["representatives are read from element_parent by following parent links (no call into the structure); parent/rank arrays themselves are not compared, "
                        "so any correct union-find variant is accepted",
                        "a checker that does not answer within 10 s is reported as Timeout (the specification has no action for a call that does not return)",
                        "repair: x, y, z, r and ids must be kept exactly; the type of a secondary root may become soma (1) in 'somas' mode, which the function documents",
                        "which node 'nearest' links to is not judged (the statement does not fix it); the algorithm with label merging is checked at specification level"]
    return ctx.finish(rule=RULE)


def replay(ctx, rec):
    c = rec["case"]
    p = ctx.write_cases("replay", [c])
    ctx.run_cases("replay", [c], p, execute, rec.get("judge", "Judge_Checkers"), keyfn)
    return ctx.finish(rule="replay of one recorded case")
