"""X03 (beyond the listed properties) — LinesToTree assembles separately traced poly-lines into one tree (spec/Assemble.tla)."""
import math
from harness import lib

RULE = ("cases = every sequence of at most M lattice poly-lines from a pool (lines that touch at ends, in the middle, coincide, or are far apart; the same line "
        "twice) x both end-point modes; each is concretised (scale, offset, 3-d embedding by vid) as pandas tables whose type / radius columns carry the identity "
        "of every point, assembled by the real LinesToTree, and the returned table is projected to (line, position, lattice point, id, pid); non-trivial = at "
        "least two lines; distinct by (lines, mode)")

PLACE = [(1.0, (0.0, 0.0, 0.0), 0), (0.5, (100.0, -40.0, 7.0), 1), (3.0, (-2000.0, 512.0, 64.0), 2), (0.25, (3.5, 3.5, 3.5), 0)]


def embed(p, s, off, ax):
    v = [0.0, 0.0, 0.0]
    v[ax] = p[0] * s
    v[(ax + 1) % 3] = p[1] * s
    return [v[i] + off[i] for i in range(3)]


def unembed(x, s, off, ax):
    q = [(x[i] - off[i]) / s for i in range(3)]
    a, b, c = q[ax], q[(ax + 1) % 3], q[(ax + 2) % 3]
    ok = abs(a - round(a)) < 1e-3 and abs(b - round(b)) < 1e-3 and abs(c) < 1e-3
    return int(round(a)), int(round(b)), ok


def execute(c):
    import numpy as np, pandas as pd
    from swcgeom.transforms import LinesToTree
    s, off, ax = PLACE[lib.vid(c) % len(PLACE)]
    tables = []
    for ln, L in enumerate(c["lines"], 1):
        a = np.array([embed(p, s, off, ax) for p in L], dtype=np.float64)
        n = len(L)
        tables.append(pd.DataFrame({"id": np.arange(n) + (7 if ln % 2 else 0), "type": np.full(n, ln), "x": a[:, 0], "y": a[:, 1], "z": a[:, 2],
                                    "r": np.arange(1, n + 1, dtype=np.float64), "pid": np.arange(n) - 1}))
    tf = LinesToTree(thre=1.2 * s * math.sqrt(c["t2"]))
    if c["und"] and lib.vid(c) % 2:
        df = tf(tables)
    else:
        df = tf.assemble(tables, undirected=bool(c["und"]))
    tab, off_grid = [], False
    for _, row in df.iterrows():
        x, y, ok = unembed([row["x"], row["y"], row["z"]], s, off, ax)
        off_grid = off_grid or not ok
        tab.append([int(row["type"]), int(round(row["r"])), x, y, int(row["id"]), int(row["pid"])])
    changed = any(abs(row["r"] - round(row["r"])) > 1e-9 for _, row in df.iterrows())
    return {"tab": tab, "offgrid": bool(off_grid), "changed": bool(changed)}


def keyfn(c, o, why):
    return why


def nontrivial(c):
    return len(c["lines"]) >= 2


def run(ctx):
    ctx.mc("MC_Assemble", "MC_Assemble.%s.cfg" % ctx.tier, expect_actions=["Start", "Attach", "Close", "Link", "Finish"])
    ctx.mc("MC_Assemble", "MC_Assemble.directed.cfg")
    ctx.mc_expect_violation("MC_Assemble", "MC_Assemble.onepass.cfg", "ClosedAreClasses")
    cases, path = ctx.gen("Gen_Assemble", "Gen_Assemble.%s.cfg" % ctx.tier)
    ctx.run_cases("lines", cases, path, execute, "Judge_Assemble", keyfn, nontrivial)
    ctx.notes["spec_level"] = ("MC_Assemble (TLC): the machine Start / Attach / Close / Link terminates, every closed sub-tree is exactly a closure class of the "
                               "'can take' relation (independent of the scan order), and the finished table satisfies Conservation, SingleTree, LineEdges, "
                               "JoinsAtEnds, ClassesHangTogether and NearestLinks; the deviation 'onepass' (scan not restarted after an attachment) is rejected")
    ctx.assumptions += ["lines have at least two points (a one-point line that coincides with a node leaves an empty table inside the library: outside the domain)",
                        "threshold 1.2 lattice units: distances 0 and 1 attach, sqrt(2) and more do not (no float tie at the threshold)",
                        "which of several equally near nodes is chosen is not judged (NearestLinks compares distances)"]
    return ctx.finish(rule=RULE)


def replay(ctx, rec):
    c = rec["case"]
    p = ctx.write_cases("replay", [c])
    ctx.run_cases("replay", [c], p, execute, "Judge_Assemble", keyfn)
    return ctx.finish(rule="replay of one recorded case")
