"""C10 — morphometric features equal their textbook definitions (spec/Morph.tla)."""
from harness import lib
import random
from harness.checks import morph

RULE = ("trees = every parents-first topology up to the bound (plus numberings where a child precedes its parent) x every assignment of "
        "parent-child offsets from a set of lattice vectors (zero-length segments, coincident points, axis steps, 3-4-5 steps), and binary "
        "trees with two bifurcation levels; each with the root at the origin or shifted away from it; every feature class, the extractor "
        "front end, Sholl at radii between and exactly on lattice distances and on step grids, and the L-Measure quantities; populations of "
        "2-3 trees for the zero-padded rows; histories: a tree is measured, one node is re-parented and moved in place through its handle, and the "
        "tree is measured again; non-trivial = at least 3 nodes and a furcation; distinct by (topology, positions)")


def execute(c):
    rng = random.Random(lib.vid(c))
    if c["kind"] == "pop":
        return morph.observe_pop(c, rng)
    if c["kind"] == "stem":
        return morph.observe_stem(c, rng)
    return morph.observe(c, [0, 1, 10][lib.vid(c) % 3], rng)


def keyfn(c, o, why):
    return why


def nontrivial(c):
    if c["kind"] == "pop":
        return True
    P = c["P"]
    return len(P) >= 3 and any(P.count(i) >= 2 for i in range(len(P)))


def run(ctx):
    cases, path = ctx.gen("Gen_Morph", "Gen_Morph.%s.cfg" % ctx.tier)
    ctx.run_cases("trees", cases, path, execute, "Judge_Morph", keyfn, nontrivial, per_case_timeout=120)
    def execute_edited(c):
        return morph.observe_edited(c, random.Random(lib.vid(c)))
    sub = [c for c in cases if c["kind"] == "tree"][:: (2 if ctx.tier == "quick" else 1)]
    ctx.run_cases("edited-in-place-after-measuring", sub, path, execute_edited, "Judge_Morph", lambda c, o, w: w + ":after-edit", nontrivial, per_case_timeout=120)
    # lengths far along a neurite: every k-th tree again behind a stem of 2 * 10^5 lattice units (Morph.StemP): short branches must come out as
    # short branches, not as differences of two large single-precision numbers
    stems = [dict(c, kind="stem") for c in cases if c["kind"] == "tree"][:: (12 if ctx.tier == "quick" else 3)]
    p = ctx.write_cases("behind-a-long-stem", stems)
    ctx.run_cases("behind-a-long-stem", stems, p, execute, "Judge_Morph", lambda c, o, w: w + ":long-stem", nontrivial, per_case_timeout=120)
    rng = ctx.rng
    trees = [c for c in cases if c["kind"] == "tree"]
    pops = [{"kind": "pop", "trees": [{"P": t["P"], "pos": t["pos"]} for t in rng.sample(trees, rng.randint(2, 3))]} for _ in range(30 if ctx.tier == "quick" else 400)]
    p = ctx.write_cases("populations", pops)
    ctx.run_cases("populations", pops, p, execute, "Judge_Morph", keyfn, nontrivial, per_case_timeout=120)
    ctx.assumptions += ["segment lengths are integers by construction (zero, axis-parallel or 3-4-5 offsets); straight-line distances and angles are compared in squared / "
                        "dot-product form in units of 1e-3 (angles through their cosine)",
                        "angles at bifurcations with a zero-length defining vector and contraction of a zero-length branch are undefined and not judged",
                        "Sholl counts on a step grid are bounded below / above by the counts without / with end points exactly on the sphere",
                        "conventions fixed by the specification: node_branch_order = depth in the branch tree; LMeasure.branch_order counts furcations on the root path inclusive; "
                        "tortuosity = straight-line / path length (1 for a zero-length path)"]
    return ctx.finish(rule=RULE)


def replay(ctx, rec):
    c = rec["case"]
    p = ctx.write_cases("replay", [c])
    ex = (lambda cc: morph.observe_edited(cc, random.Random(lib.vid(cc)))) if rec.get("stage", "").startswith("edited") else execute
    ctx.run_cases("replay", [c], p, ex, "Judge_Morph", keyfn)
    return ctx.finish(rule="replay of one recorded case")
