"""C20 — image stacks survive save/load, and rasterised trees match their geometry (spec/ImageStack.tla)."""
from harness import lib
import os, shutil, tempfile, warnings
from fractions import Fraction
import numpy as np

RULE = ("(a) io: every stack shape over 1..MaxDim per axis x channels {3-d input, 1, 3} x array dtype {u8, u16, f32} x dtype argument of save_tiff "
        "{none, u8, u16, f32} x dtype asked on load {u8, u16, f32, f64}, voxel value = code of its index (so any axis mix-up shows), saved as TIFF and "
        "read back; a sample also as NPY and NRRD; (b) raster: lattice trees (chains, forks; equal and unequal end radii) at resolutions 1, 1/2, "
        "(1,2,1), 3/2, 7/2, 7/10 ...: shape and every voxel against exact integer membership of the voxel centre (centres exactly on a surface "
        "left open), plus transform_and_save -> read_imgs; non-trivial = asymmetric shape or a tree with a fork; distinct by case content")
NP = {"u8": np.uint8, "u16": np.uint16, "f32": np.float32, "f64": np.float64, "f16": np.float16}


def exec_io(c):
    from swcgeom.images.io import save_tiff, read_imgs
    X, Y, Z, C = c["shape"]
    sh4 = (X, Y, Z, max(C, 1))
    code = np.arange(int(np.prod(sh4)), dtype=np.int64).reshape(sh4)
    hi = c.get("hi", 0)
    if c["sd"] in ("u8", "u16"):
        arr = ((65535 if c["sd"] == "u16" else 255) - code if hi else code).astype(NP[c["sd"]])
    elif hi:
        arr = np.where(code == 0, 1.0, (509 - 2 * code) / 510.0).astype(NP[c["sd"]])
    else:
        arr = ((code + 0.5) / 255.0).astype(NP[c["sd"]])
    if C == 0:
        arr = arr[..., 0]
    arr0 = arr.copy()
    tmp = tempfile.mkdtemp(prefix="verif_img_")
    try:
        fmt = c.get("fmt", "tif")
        p = os.path.join(tmp, "s." + fmt)
        with warnings.catch_warnings():
            warnings.simplefilter("ignore")
            if fmt == "tif":
                kw = {} if c["fdarg"] == "same" else {"dtype": NP[c["fdarg"]]}
                if lib.vid(c) % 3 == 0:
                    kw["compression"] = False
                save_tiff(arr, p, **kw)
                if lib.vid(c) % 2:
                    save_tiff(arr, p, **kw)          # exporting the same array again gives the same file
            elif fmt == "npy":
                np.save(p, arr)
            else:
                import nrrd
                nrrd.write(p, arr)
            img = read_imgs(p, dtype=NP[c["ld"]])
            full = np.asarray(img.get_full())
            part = np.asarray(img[:, :, :, :])
            if full.shape != tuple(img.shape) or not np.array_equal(full, part):
                raise ValueError("get_full / shape / indexing disagree")
            if lib.vid(c) % 2 == 0:
                # the caller thresholds the array it was given in place; the file on disk is what it was: reading it again gives the same stack
                first = np.array(full, copy=True)
                try:
                    full[...] = (full > 0).astype(full.dtype)
                except (ValueError, TypeError):       # a read-only array: nothing to overwrite
                    pass
                del img
                again = np.asarray(read_imgs(p, dtype=NP[c["ld"]]).get_full())
                if again.shape != first.shape or not np.array_equal(again, first):
                    raise ValueError("a second read of the same file differs")
                full = first
    finally:
        shutil.rmtree(tmp, ignore_errors=True)
    if c["ld"] in ("u8", "u16"):
        vals = [[[[int(v) for v in zz] for zz in yy] for yy in xx] for xx in full]
    else:
        clamp = lambda v: int(round(max(-3.0, min(3.0, float(v))) * 10000)) if np.isfinite(v) else 30000
        vals = [[[[clamp(v) for v in zz] for zz in yy] for yy in xx] for xx in full]
    pure = int(arr.dtype == arr0.dtype and arr.shape == arr0.shape and np.array_equal(arr, arr0))      # saving does not touch the caller's array
    return {"shape": [int(v) for v in full.shape], "vals": vals, "pure": pure}


def exec_raster(c):
    from swcgeom.core import Tree
    from swcgeom.transforms import ToImageStack
    from swcgeom.images.io import read_imgs
    P, pos, rad = c["P"], c["pos"], c["rad"]
    n = len(P)
    if lib.vid(c) % 3 == 1 and n > 2:
        # the same tree under another numbering (root stays 0, the other nodes in reverse order: children precede their parents)
        new = [0] + [n - i for i in range(1, n)]
        old = sorted(range(n), key=lambda i: new[i])
        P = [(-1 if P[o] == -1 else new[P[o]]) for o in old]
        pos = [pos[o] for o in old]
        rad = [rad[o] for o in old]
    t = Tree(n, source=lib.SRC, id=np.arange(n, dtype=np.int32), pid=np.array(P, dtype=np.int32), type=np.array([1] + [3] * (n - 1), dtype=np.int32),
             x=np.array([p[0] for p in pos], dtype=np.float32), y=np.array([p[1] for p in pos], dtype=np.float32),
             z=np.array([p[2] for p in pos], dtype=np.float32), r=np.array(rad, dtype=np.float32))
    res = [Fraction(a, b) for a, b in c["res"]]
    arg = float(res[0]) if res[0] == res[1] == res[2] and lib.vid(c) % 2 else [float(r) for r in res]
    tf = lib.reused(ToImageStack(arg), c, t)
    snap = lib.snapshot(t)
    if "box" in c:
        # block rendering: only the part of space between ranges = (lo, hi) is sampled
        lo, hi = [float(v) for v in c["box"][0]], [float(v) for v in c["box"][1]]
        stack = np.stack(list(tf.transform(t, verbose=False, ranges=(np.array(lo), np.array(hi)))), axis=0)
    else:
        stack = lib.outlives(tf, t, c)          # (one case in two: the object rasterises other trees before this stack is read)
    saved_ok = 1
    if (lib.vid(c) % 4 == 0 or c.get("save")) and "box" not in c:
        tmp = tempfile.mkdtemp(prefix="verif_img_")
        try:
            p = os.path.join(tmp, "t.tif")
            tf.transform_and_save(p, t, verbose=False)
            with warnings.catch_warnings():
                warnings.simplefilter("ignore")
                back = np.asarray(read_imgs(p, dtype=np.uint8).get_full())          # (X, Y, Z, 1)
            want = np.moveaxis(stack, 0, 2)[..., None]
            saved_ok = int(back.shape == want.shape and np.array_equal(back, want))
        finally:
            shutil.rmtree(tmp, ignore_errors=True)
    return {"shape": [int(v) for v in stack.shape], "vox": [[[int(v) for v in row] for row in fr] for fr in stack], "saved_ok": saved_ok,
            "pure": 1 - lib.changed(t, snap)}


def execute(c):
    return exec_io(c) if c["kind"] == "io" else exec_raster(c)


def keyfn(c, o, why):
    return why


def nontrivial(c):
    if c["kind"] == "io":
        return len(set(c["shape"][:3])) > 1
    return any(c["P"].count(i) >= 2 for i in range(len(c["P"])))


def raster_cases(ctx, count):
    rng = ctx.rng
    RES = [[(1, 1)] * 3, [(1, 2)] * 3, [(1, 1), (2, 1), (1, 1)], [(3, 2)] * 3, [(1, 1), (1, 1), (7, 2)], [(7, 10)] * 3, [(1, 1), (1, 1), (5, 2)],
           [(2, 1), (1, 1), (1, 2)], [(1, 4), (1, 2), (1, 1)], [(1, 1), (1, 1), (7, 10)]]
    out = []
    for k in range(count):
        n = rng.randint(2, 5)
        P = [-1] + [rng.randrange(0, i) for i in range(1, n)]
        pos = [[rng.randint(-2, 2), rng.randint(-2, 2), rng.randint(-2, 2)]]
        for i in range(1, n):
            step = [0, 0, 0]
            for _ in range(rng.randint(1, 2)):
                step[rng.randrange(3)] += rng.choice([-3, -2, -1, 1, 2, 3, 4])
            pos.append([pos[P[i]][j] + step[j] for j in range(3)])
        equal = k % 3 != 0
        r0 = rng.randint(1, 2)
        rad = [r0 if equal else rng.randint(1, 3) for _ in range(n)]
        res = RES[k % len(RES)]
        save = 0
        if k % 9 == 7:
            # one end ball strictly inside the other (the union is then the larger ball)
            n = rng.randint(2, 3)
            P = [-1] + list(range(n - 1))
            ax = rng.randrange(3)
            pos = [[0, 0, 0]]
            for i in range(1, n):
                q = list(pos[-1]); q[ax] += rng.choice([-1, 1]); pos.append(q)
            rad = [rng.choice([3, 4]) if i % 2 == k % 2 else 1 for i in range(n)]
        elif k % 9 == 8:
            # a flat tree at a coarse z resolution: the stack has a single frame; it is saved and read back
            zc = rng.randint(-1, 1)
            pos = [[p[0], p[1], zc] for p in pos]
            rad = [1] * n
            res = [(1, 1), (1, 1), (7, 2)] if k % 2 else [(1, 2), (1, 1), (5, 2)]
            save = 1
        den = 1
        for a, b in res:
            den = den * b // np.gcd(den, b)
        S = int(2 * den)
        case = {"kind": "raster", "P": P, "pos": pos, "rad": rad, "res": [list(x) for x in res], "S": S,
                "resS": [int(Fraction(a, b) * S) for a, b in res], "save": save}
        if k % 5 == 2 and not save:
            # a block of the tree's bounding box (a slab of two units along one axis, entered by whatever part of the tree reaches into it)
            lo = [min(p[j] - r for p, r in zip(pos, rad)) for j in range(3)]
            hi = [max(p[j] + r for p, r in zip(pos, rad)) for j in range(3)]
            ax = (k // 5) % 3
            if hi[ax] - lo[ax] >= 3:
                a = lo[ax] + rng.randint(0, hi[ax] - lo[ax] - 2)
                lo[ax], hi[ax] = a, a + 2
            case["box"] = [lo, hi]
        out.append(case)
    # blocks entered only by the thick end of a tapering segment (a soma of radius 4 joined to a neurite of radius 1), away from its centre line
    for j in range(6 if count < 100 else 18):
        ax, side = j % 3, 1 if (j // 3) % 2 == 0 else -1
        o1, o2 = (ax + 1) % 3, (ax + 2) % 3
        child = [0, 0, 0]; child[ax] = 6 * (1 if j % 2 == 0 else -1)
        pos = [[0, 0, 0], child]
        rad = [4, 1]
        lo = [min(p[q] - r for p, r in zip(pos, rad)) for q in range(3)]
        hi = [max(p[q] + r for p, r in zip(pos, rad)) for q in range(3)]
        sl = [o1, o2][(j // 6) % 2]
        lo[sl], hi[sl] = (2, 4) if side == 1 else (-4, -2)
        res = RES[j % 2]
        den = res[0][1]
        S = int(2 * den)
        out.append({"kind": "raster", "P": [-1, 0], "pos": pos, "rad": rad, "res": [list(x) for x in res], "S": S,
                    "resS": [int(Fraction(a, b) * S) for a, b in res], "save": 0, "box": [lo, hi]})
    # a thin, tall stack: hundreds of frames (saved and read back)
    for m, zres in ((300, (1, 100)),) + (() if count < 100 else ((512, (1, 128)),)):
        L = 1 if m == 300 else 2
        res = [(1, 1), (1, 1), zres]
        S = 2 * zres[1]
        out.append({"kind": "raster", "P": [-1, 0], "pos": [[0, 0, 0], [0, 0, L]], "rad": [1, 1], "res": [list(x) for x in res], "S": S,
                    "resS": [int(Fraction(a, b) * S) for a, b in res], "save": 1})
    return out


def run(ctx):
    q = ctx.tier == "quick"
    cases, path = ctx.gen("Gen_ImageStack", "Gen_ImageStack.%s.cfg" % ctx.tier)     # ASSUMEs: Load(Save(a)) = a for every shape; a wrong axes tag is visible on asymmetric shapes only
    ctx.run_cases("io-tiff", cases, path, execute, "Judge_ImageStack", keyfn, nontrivial)
    other = [dict(c, fmt=("npy" if k % 2 else "nrrd"), fdarg="same") for k, c in enumerate(cases[:: (9 if q else 3)])]
    # stacks with exactly three planes / rows / columns and no channel axis (a 3-d array whose last axis has length 3 is a stack, not an RGB plane)
    other += [{"kind": "io", "shape": sh, "sd": sd, "fdarg": "same", "ld": ld, "fmt": fmt}
              for sh in ([2, 2, 3, 0], [2, 3, 2, 0], [3, 2, 2, 0], [1, 1, 3, 0], [3, 3, 3, 0], [2, 2, 3, 1])
              for fmt, sd, ld in (("npy", "u8", "u8"), ("nrrd", "u16", "f32"), ("tif", "u8", "f32"), ("npy", "f32", "u8"))]
    p = ctx.write_cases("io-npy-nrrd", other)
    ctx.run_cases("io-npy-nrrd", other, p, execute, "Judge_ImageStack", keyfn, nontrivial)
    # saturated voxels and the top of the unit interval; half-precision files and loads (a narrowing unsigned cast is not a documented rescaling: left out)
    sat = [{"kind": "io", "shape": [2, 1 + k % 2, 2, [0, 1, 3][k % 3]], "sd": sd, "fdarg": fd, "ld": ld, "fmt": "tif", "hi": hi}
           for hi in (1, 0) for sd in ("u8", "u16", "f32") for fd in ("same", "u8", "u16", "f32", "f16") for k, ld in enumerate(("u8", "u16", "f32", "f64", "f16"))
           if not (hi == 0 and "f16" not in (fd, ld))
           and not ((fd if fd != "same" else sd) == "u16" and ld == "u8") and not (sd == "u16" and fd == "u8")]
    p = ctx.write_cases("io-extremes", sat)
    ctx.run_cases("io-extremes", sat, p, execute, "Judge_ImageStack", keyfn, nontrivial)
    rc = raster_cases(ctx, 45 if q else 540)
    p = ctx.write_cases("raster", rc)
    ctx.run_cases("raster", rc, p, execute, "Judge_ImageStack", keyfn, nontrivial, per_case_timeout=120)
    ctx.assumptions += ["voxel values are index codes below 255; float arrays hold (code + 1/2) / 255 so that the documented floor(v * MAX) is decided away from rounding; "
                        "one unit of slack where an unsigned value travels through a float file (k / MAX * MAX)",
                        "raster: integer positions and radii; a voxel must be lit when its centre is strictly inside the capsule of the smaller end radius of some edge and dark when outside "
                        "the capsule of the larger end radius of every edge; for equal end radii this decides every centre not exactly on a surface; the conical flank between unequal radii is bracketed only",
                        "TeraFly / V3D readers are not covered"]
    return ctx.finish(rule=RULE)


def replay(ctx, rec):
    c = rec["case"]
    p = ctx.write_cases("replay", [c])
    ctx.run_cases("replay", [c], p, execute, "Judge_ImageStack", keyfn, per_case_timeout=120)
    return ctx.finish(rule="replay of one recorded case")
