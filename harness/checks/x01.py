"""X01 (beyond the listed properties) — Transforms(...) is sequential composition (spec/Pipeline.tla)."""
from harness import lib

RULE = ("cases = every composition expression up to nesting depth 2 over four primitive transforms (add, double, negate, the library's Identity) with "
        "at most M items per composition; for each the real Transforms object is built (nested Transforms objects as items) and asked for its length, its "
        "items (every index from -n-1 to n), its repr and its value on -2..2, twice; non-trivial = a nested composition; distinct by expression")


def classes():
    from swcgeom.transforms.base import Transform, Identity

    class Add(Transform):
        def __init__(self, k):
            self.k = k

        def __call__(self, x):
            return x + self.k

        def extra_repr(self):
            return "k=%d" % self.k

    class Mul(Add):
        def __call__(self, x):
            return x * self.k

    class Neg(Transform):
        def __call__(self, x):
            return -x
    return Add, Mul, Neg, Identity


def build(e, cl):
    from swcgeom.transforms.base import Transforms
    Add, Mul, Neg, Identity = cl
    op = e["op"]
    if op == "seq":
        return Transforms(*[build(x, cl) for x in e["items"]])
    return {"add": lambda: Add(e["k"]), "mul": lambda: Mul(e["k"]), "neg": Neg, "id": Identity}[op]()


def name(t, cl):
    Add, Mul, Neg, Identity = cl
    if type(t) is Mul:
        return ["mul", t.k]
    if type(t) is Add:
        return ["add", t.k]
    if type(t) is Neg:
        return ["neg", 0]
    if type(t) is Identity:
        return ["id", 0]
    return [type(t).__name__, 0]


def execute(c):
    cl = classes()
    t = build(c["e"], cl)
    n = len(t)
    xs = [-2, -1, 0, 1, 2]
    idx = list(range(-n - 1, n + 1))
    at = []
    for i in idx:
        try:
            at.append(name(t[i], cl))
        except IndexError:
            at.append(["IndexError", 0])
    calls = [int(t(x)) for x in xs]
    return {"len": n, "items": [name(x, cl) for x in t.transforms], "xs": xs, "calls": calls, "idx": idx, "at": at, "repr": repr(t),
            "again": [int(t(x)) for x in xs]}


def keyfn(c, o, why):
    return why


def nontrivial(c):
    return any(x["op"] == "seq" for x in c["e"]["items"])


def run(ctx):
    cases, path = ctx.gen("Gen_Pipeline", "Gen_Pipeline.%s.cfg" % ctx.tier)     # ASSUMEs: flattening preserves the meaning; composition is associative
    ctx.run_cases("expressions", cases, path, execute, "Judge_Pipeline", keyfn, nontrivial)
    ctx.notes["spec_level"] = "ASSUME in Gen_Pipeline (TLC): Call(e, x) = Mean(e, x) for every expression, and regrouping items changes nothing"
    ctx.assumptions += ["primitive transforms are toy integer functions defined by the executor as subclasses of swcgeom's Transform; Identity is the library's"]
    return ctx.finish(rule=RULE)


def replay(ctx, rec):
    c = rec["case"]
    p = ctx.write_cases("replay", [c])
    ctx.run_cases("replay", [c], p, execute, "Judge_Pipeline", keyfn)
    return ctx.finish(rule="replay of one recorded case")
