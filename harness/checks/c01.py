"""C01 — SWC write -> read round trip reproduces the tree (spec/SwcIO.tla: WrittenFile, Round4, RTRows, RTBodies)."""
from fractions import Fraction
import numpy as np
from harness.checks import swcio

RULE = ("cases = every well-formed topology (all numberings, root 0) up to the bound x every comment list over the comment pool "
        "(empty, whitespace-only, leading blanks, look-alikes of data rows and of the source header), with id offsets {0,1,2,9,1000} (free cases: up to 2*10^9, beyond what a float32 holds exactly), "
        "source header {off, default, given}, comments on/off and source kind {text, bytes, path} assigned round-robin; coordinates cover "
        "rounding up/down across a unit and negative values that round to zero; two generations (write, read, write, read); the written "
        "text itself is compared line by line with the writer specification; non-trivial = at least 2 nodes or a comment; "
        "distinct by (tree, comments, offset, header, kind)")


def keyfn(c, o, why):
    return "roundtrip:%s" % why


def nontrivial(c):
    return len(c["t"]["P"]) >= 2 or len(c["t"]["com"]) > 0


def absval(v):
    """float32 value -> <<sign, floor(|v| * 10^5), exact?>> computed exactly"""
    f = Fraction(float(v))
    s = -1 if f < 0 else 1
    m = abs(f) * 100000
    k5 = m.numerator // m.denominator
    return [s, int(k5), 1 if m.denominator == 1 else 0]


def free_cases(ctx, count, big):
    rng = ctx.rng
    nrng = np.random.default_rng(ctx.seed + 11)
    shapes = []
    for _ in range(count):
        n = rng.randint(2, 40)
        style = rng.random()
        shapes.append([-1] + [(rng.randrange(0, i) if rng.random() < style else i - 1) for i in range(1, n)])
    for n in big:
        shapes.append([-1] + list(range(0, n - 1)))           # chain
        shapes.append([-1] + [0] * (n // 10))                 # star
    out = []
    pool = [[0, ""], [1, ""], [0, "a"], [2, "a b"], [0, "x  y "], [1, "1 1 0 0 0 1 -1"], [0, "source: q"], [0, "#"], [0, "a{FF}b"], [1, "p{LS}q"], [0, "m{NEL}n{VT}o{FS}p"], [2, "t{TAB}u"]]
    for P in shapes:
        n = len(P)
        scale = rng.choice([1.0, 10.0, 300.0, 5000.0, 19000.0])
        fv = (nrng.random((n, 4)) * 2 - 1) * scale
        if rng.random() < 0.3:
            fv = np.round(fv, rng.choice([0, 1, 3, 4, 5]))    # short decimals, ties at the 5th decimal included
        fv = fv.astype(np.float32) + np.float32(0.0)          # no negative zero (prints "-0.0000"; numerically the same)
        fv[:, 3] = np.abs(fv[:, 3]) + np.float32(0.01)
        v = [[absval(x) for x in row] for row in fv]
        com = [list(rng.choice(pool)) for _ in range(rng.randint(0, 4))]
        out.append({"op": "roundtrip", "t": {"P": P, "ty": [rng.randrange(0, 12) for _ in range(n)], "v": v, "com": com},
                    "fvals": [[float(x) for x in row] for row in fv], "off": rng.choice([0, 1, 2, 9, 1000, 123456, 16777216, 16777219, 1000000007, 2000000000]),
                    "src": rng.choice(["", "Unknown", "s", "my file.swc"]), "wc": rng.random() < 0.8, "kind": rng.randrange(3)})
    return out


def big_cases(ctx, count):
    """trees whose coordinates and radii have large magnitudes (3*10^4 .. the largest float32), exact limb representation"""
    rng = ctx.rng
    out = []
    special = [3.0e4, 65536.0, 99999.99, 1.0e7, 12345678.0, 16777216.0, 16777217.0, 1.0e10, 2.0 ** 40, 1.0e15, 123456789012345678.0, 1.0e22, 1.0e30,
               3.4028234663852886e38, 2.0 ** 100, 99999.5, 131071.99, 262143.98, 1048575.9, 8388607.5, 4194303.75]
    for k in range(count):
        n = rng.randint(1, 6)
        P = [-1] + [rng.randrange(0, i) for i in range(1, n)]
        fv = []
        for i in range(n):
            row = []
            for j in range(4):
                if rng.random() < 0.35:
                    v = rng.choice(special)
                else:
                    v = 10 ** rng.uniform(4.5, 38.4)
                v = float(np.float32(v))
                if j < 3 and rng.random() < 0.5:
                    v = -v
                row.append(v)
            fv.append(row)
        out.append({"op": "roundtrip_big", "t": {"P": P, "ty": [rng.randrange(0, 8) for _ in range(n)], "v": [[swcio.bigval(x) for x in row] for row in fv], "com": []},
                    "fvals": fv, "off": rng.choice([0, 1, 7, 16777216, 2000000000]), "kind": rng.randrange(3)})
    return out


def run(ctx):
    cases, path = ctx.gen("Gen_SwcIO", "Gen_SwcIO.%s.cfg" % ctx.tier)       # its ASSUME checks the specification-level round trip on every case
    rts = [c for c in cases if c["op"] == "roundtrip"]
    try:
        ctx.run_cases("enumerated", rts, path, swcio.execute, "Judge_SwcIO", keyfn, nontrivial)
        fc = free_cases(ctx, 150 if ctx.tier == "quick" else 3000, [2000] if ctx.tier == "quick" else [5000, 20000])
        p = ctx.write_cases("free", fc)
        ctx.run_cases("free", fc, p, swcio.execute, "Judge_SwcIO", keyfn, nontrivial, per_case_timeout=120)
        bc = big_cases(ctx, 120 if ctx.tier == "quick" else 2000)
        p = ctx.write_cases("large-magnitude", bc)
        ctx.run_cases("large-magnitude", bc, p, swcio.execute, "Judge_SwcIO", keyfn, nontrivial, per_case_timeout=60)
    finally:
        swcio.cleanup()
    ctx.notes["spec_level_round_trip"] = "ASSUME in Gen_SwcIO: Read(WrittenFile(t)) = (RTRows(t), RTBodies(t)) on every generated case (checked by TLC)"
    ctx.assumptions += ["a user comment that is itself the column header line is not generated (the reader drops the writer's header by its text)",
                        "enumerated coordinates are multiples of 10^-5 away from rounding ties (|v| < 64, where float32 is finer than 10^-5); free-running cases "
                        "carry arbitrary float32 values with |v| < 2*10^4 and their exact decimal expansion (sign, floor(|v|*10^5), exactness) computed with Fraction",
                        "magnitudes from 3*10^4 to the largest float32 are judged with base-10^8 limb arithmetic in the specification (Round4Big, checked against Round4 where both apply): "
                        "the written token must denote the value rounded half-even to four decimals and the value read back must be the original float32 (whose spacing exceeds 10^-4 there)",
                        "comments are compared leading blanks aside, as the statement says"]
    return ctx.finish(rule=RULE)


def replay(ctx, rec):
    c = rec["case"]
    p = ctx.write_cases("replay", [c])
    try:
        ctx.run_cases("replay", [c], p, swcio.execute, rec.get("judge", "Judge_SwcIO"), keyfn)
    finally:
        swcio.cleanup()
    return ctx.finish(rule="replay of one recorded case")
