"""C12 — geometric transforms apply the stated affine map about the stated centre (spec/Affine.tla)."""
import math
import numpy as np
from harness import lib

RULE = ("cases = every operation (translate, scale incl. non-uniform and fractional factors, rotation about x/y/z and about rational unit axes by "
        "angles with rational sine and cosine of either sign, explicit affine matrices, translate-to-origin) x centre mode {origin, root} x "
        "tree set (one tree, or two trees through the SAME transform object) x angle winding {-2pi, 0, +2pi}; every operation followed by its "
        "inverse; every matrix builder entry by entry; trees have their root away from the origin; non-trivial = rotation or scaling about the "
        "root, or an inverse pair; distinct by (operation, centre, trees)")


def fr(r):
    return r[0] / r[1]


def theta_of(a, wind, nudge=False):
    th = math.atan2(fr(a[1]), fr(a[0])) + 2 * math.pi * wind
    if nudge and fr(a[0]) * fr(a[1]) == 0:
        # a whole number of quarter turns handed over a millionth short of it (3.14159 for pi): still that turn, to 1e-5 of any coordinate
        th *= 1 - 1e-6
    return th


def mk_tree(pts, k, custom=False):
    from swcgeom.core import Tree
    n = len(pts)
    pid = [-1] + [(i - 1 if (i + k) % 2 else 0) for i in range(1, n)]
    if custom:
        # a tree whose columns carry user-chosen names (SWCNames): the accessors x() / y() / z() / r() read the named columns
        from swcgeom.core.swc_utils import SWCNames
        nm = SWCNames(id="n", type="kind", x="px", y="py", z="pz", r="rad", pid="parent")
        return Tree(n, source=lib.SRC, names=nm, n=np.arange(n, dtype=np.int32), parent=np.array(pid, dtype=np.int32),
                    kind=np.array([1 + (i + k) % 4 for i in range(n)], dtype=np.int32),
                    px=np.array([p[0] for p in pts], dtype=np.float32), py=np.array([p[1] for p in pts], dtype=np.float32),
                    pz=np.array([p[2] for p in pts], dtype=np.float32), rad=np.array([0.5 + i for i in range(n)], dtype=np.float32))
    return Tree(n, source=lib.SRC, id=np.arange(n, dtype=np.int32), pid=np.array(pid, dtype=np.int32), type=np.array([1 + (i + k) % 4 for i in range(n)], dtype=np.int32),
                x=np.array([p[0] for p in pts], dtype=np.float32), y=np.array([p[1] for p in pts], dtype=np.float32),
                z=np.array([p[2] for p in pts], dtype=np.float32), r=np.array([0.5 + i for i in range(n)], dtype=np.float32))


def mk_op(o, wind, use_cls, vid=0):
    """returns a callable tree -> tree"""
    from swcgeom.transforms import Translate, TranslateOrigin, Scale, Rotate, RotateX, RotateY, RotateZ, AffineTransform
    from swcgeom.utils import translate3d, scale3d, rotate3d_z
    op, c = o["op"], o.get("centre", "origin")
    if c == "root" and vid % 3 == 1:
        c = "soma"                      # the documented alias of "root"
    if op == "translate":
        v = [fr(x) for x in o["v"]]
        return (lambda t: Translate.transform(t, *v, center=c)) if use_cls else Translate(*v, center=c)
    if op == "translate_origin":
        return TranslateOrigin.transform if use_cls else TranslateOrigin()
    if op == "scale":
        v = [fr(x) for x in o["v"]]
        return (lambda t: Scale.transform(t, *v, center=c)) if use_cls else Scale(*v, center=c)
    th = theta_of(o["a"], wind, nudge=(vid % 3 == 2))
    if op in ("rotx", "roty", "rotz"):
        cls = {"rotx": RotateX, "roty": RotateY, "rotz": RotateZ}[op]
        return (lambda t: cls.transform(t, th, center=c)) if use_cls else cls(th, center=c)
    if op == "rotate":
        n = np.array([fr(x) for x in o["n"]])
        return (lambda t: Rotate.transform(t, n, th, center=c)) if use_cls else Rotate(n, th, center=c)
    if op == "affine":
        tm = translate3d(*[fr(x) for x in o["v"]]).dot(rotate3d_z(th)).dot(scale3d(*[fr(x) for x in o["w"]]))
        if vid % 2:
            tm = np.asarray(tm, dtype=np.float64) * [2.0, 0.5, -4.0][(vid // 2) % 3]      # a homogeneous matrix denotes the same map when all of it is scaled
        return AffineTransform(tm, center=c)
    raise ValueError(op)


def q3(t):
    return [[int(round(float(a) * 1000)) for a in p] for p in zip(t.x(), t.y(), t.z())]


def execute(c):
    from swcgeom import utils
    o, wind = c["o"], c["wind"]
    if c["kind"] == "matrix":
        op = o["op"]
        if op == "translate":
            m = utils.translate3d(*[fr(x) for x in o["v"]])
        elif op == "scale":
            m = utils.scale3d(*[fr(x) for x in o["v"]])
        elif op == "rotate":
            m = utils.rotate3d(np.array([fr(x) for x in o["n"]]), theta_of(o["a"], wind))
        else:
            m = {"rotx": utils.rotate3d_x, "roty": utils.rotate3d_y, "rotz": utils.rotate3d_z}[op](theta_of(o["a"], wind))
        m = np.asarray(m, dtype=np.float64)
        if m.shape != (4, 4):
            raise ValueError("builder returned shape %s" % (m.shape,))
        return {"m": [[int(round(float(v) * 1e6)) for v in row] for row in m]}
    use_cls = lib.vid(c) % 4 == 3 and len(c["trees"]) == 1
    f = mk_op(o, wind, use_cls, lib.vid(c))
    g = mk_op(c["oi"], -wind, False, lib.vid(c) // 3) if c["kind"] == "inverse" else None
    if c["kind"] == "pipe":
        # two steps in a row: composed with Transforms(first, second), or applied one after the other
        from swcgeom.transforms import Transforms
        f1, f2 = mk_op(o, 0, False, 0), mk_op(c["oi"], 0, False, 0)
        f = Transforms(f1, f2) if lib.vid(c) % 2 == 0 else (lambda t: f2(f1(t)))
    res, kept = [], 1
    for j, pts in enumerate(c["trees"]):
        t = mk_tree(pts, j, custom=(lib.vid(c) % 4 == 2))
        snap = lib.snapshot(t)
        u = f(t)
        if g is not None:
            snap_u = lib.snapshot(u)
            v = g(u)
            if lib.changed(u, snap_u):
                kept = 0
            u = v
        if lib.changed(t, snap) or not (np.array_equal(u.pid(), t.pid()) and np.array_equal(u.type(), t.type()) and np.array_equal(u.r(), t.r())
                                        and np.array_equal(u.id(), t.id())):
            kept = 0
        res.append(u)
    return {"res": [q3(u) for u in res], "kept": kept}        # (results are read after all calls: each must outlive the later ones)


def keyfn(c, o, why):
    return "%s:%s" % (c["kind"], why)


def nontrivial(c):
    return c["kind"] == "inverse" or (c["o"]["op"] not in ("translate", "translate_origin") and c["o"].get("centre") == "root")


def run(ctx):
    cases, path = ctx.gen("Gen_Affine", "Gen_Affine.%s.cfg" % ctx.tier)          # its ASSUMEs are the specification-level statements of C12
    ctx.run_cases("enumerated", cases, path, execute, "Judge_Affine", keyfn, nontrivial)
    ctx.notes["spec_level"] = ("ASSUMEs of Gen_Affine, checked by TLC in exact rational arithmetic over the whole grid: centre fixed, rotations are isometries, "
                               "right-handed sense, Rodrigues = axis rotations on coordinate axes and fixes its axis, scaling multiplies centre-relative offsets, inverse restores")
    ctx.assumptions += ["angles are those with rational sine and cosine (multiples of 90 degrees, 3-4-5 and 5-12-13 angles, both signs), axes rational unit vectors; "
                        "the float angle handed to the library is atan2(s, c) plus the winding",
                        "coordinates are compared in units of 1e-3 with tolerance 3 units (float32 pipeline), matrix entries in units of 1e-6 with tolerance 2"]
    return ctx.finish(rule=RULE)


def replay(ctx, rec):
    c = rec["case"]
    p = ctx.write_cases("replay", [c])
    ctx.run_cases("replay", [c], p, execute, "Judge_Affine", keyfn)
    return ctx.finish(rule="replay of one recorded case")
