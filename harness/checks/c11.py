"""C11 — morphometrics do not depend on pose or node numbering (spec/Morph.tla is a function of the parent relation and inter-node distances only)."""
from harness import lib
import random
from harness.checks import morph

RULE = ("the lattice trees of C10, each concretised after one of six transformations - lattice rotation + translation, generic axis/angle rotation + "
        "translation, renumbering (reversed / shuffled, root first), uniform scaling by 2 and by 0.37 (radii scaled too), and combinations (a further pass scales by 10^-6 and by 3*10^4) - and every "
        "feature asked again: the judge is the same pose- and numbering-free specification, with lengths divided by the scale factor; volumes at the "
        "deterministic accuracy levels 1-4 are compared with the untransformed tree's volume times scale^3; non-trivial = at least 3 nodes and a "
        "furcation; distinct by (tree, transformation)")


def execute(c):
    rng = random.Random(lib.vid(c) * 7 + 1)
    return morph.observe(c, 2 + (c["motion"] % 6), rng, with_volume=True)


def keyfn(c, o, why):
    return why if why.startswith("torque-orientation") else "%s:motion%d" % (why, 2 + (c["motion"] % 6))


def nontrivial(c):
    P = c["P"]
    return len(P) >= 3 and any(P.count(i) >= 2 for i in range(len(P)))


def run(ctx):
    cases, path = ctx.gen("Gen_Morph", "Gen_Morph.%s.cfg" % ctx.tier)
    ctx.run_cases("transformed", cases, path, execute, "Judge_Morph", keyfn, nontrivial, per_case_timeout=120)

    def execute_derived(c):
        return morph.observe_derived(c, random.Random(lib.vid(c)))
    sub = cases if ctx.tier != "quick" else cases[::3]
    ctx.run_cases("derived-from-a-measured-tree", sub, path, execute_derived, "Judge_Morph", lambda c, o, w: w + ":derived", nontrivial, per_case_timeout=120)
    def execute_extreme(c):
        return morph.observe(c, 8 + ((lib.vid(c) // 4) % 2), random.Random(lib.vid(c)), with_volume=True)
    sub = cases if ctx.tier != "quick" else cases[::4]
    ctx.run_cases("extreme-scale-factors", sub, path, execute_extreme, "Judge_Morph", lambda c, o, w: w + ":scale-%s" % ("1e-6" if (lib.vid(c) // 4) % 2 == 0 else "3e4"), nontrivial, per_case_timeout=120)
    def execute_far(c):
        return morph.observe(c, 11, random.Random(lib.vid(c)), with_volume=True)
    sub = cases if ctx.tier != "quick" else cases[::4]
    ctx.run_cases("small-and-far-from-the-origin", sub, path, execute_far, "Judge_Morph", lambda c, o, w: w + ":far", nontrivial, per_case_timeout=120)
    if ctx.tier != "quick":      # every tree under a second transformation
        def execute2(c):
            return morph.observe(c, 2 + ((c["motion"] + 3) % 6), random.Random(lib.vid(c)), with_volume=True)
        ctx.run_cases("transformed-2", cases, path, execute2, "Judge_Morph", keyfn, nontrivial, per_case_timeout=120)
    ctx.assumptions += ["no library operation scales radii: for uniform scaling the executor scales coordinates and radii itself",
                        "rotations are applied by the executor (float64 Rodrigues matrix) so that C11 is decided independently of the library's own transforms (C12)",
                        "volume invariance is checked at accuracy levels 1-4 (no Monte-Carlo term); tolerance 2e-4 relative (float32 coordinates)",
                        "tolerances as in C10 (units of 1e-3, cosines for angles)",
                        "a second pass derives the moved / scaled tree from an already measured tree object through the library's own Translate / RotateZ / Scale (radii are "
                        "not scaled there, so volume is not compared in that pass)"]
    return ctx.finish(rule=RULE)


def replay(ctx, rec):
    c = rec["case"]
    p = ctx.write_cases("replay", [c])
    ex = (lambda cc: morph.observe_derived(cc, random.Random(lib.vid(cc)))) if rec.get("stage", "").startswith("derived") else execute
    if rec.get("stage", "").startswith("small-and-far"):
        ex = lambda cc: morph.observe(cc, 11, random.Random(lib.vid(cc)), with_volume=True)
    if rec.get("stage", "").startswith("extreme"):
        ex = lambda cc: morph.observe(cc, 8 + ((lib.vid(cc) // 4) % 2), random.Random(lib.vid(cc)), with_volume=True)
    ctx.run_cases("replay", [c], p, ex, "Judge_Morph", keyfn)
    return ctx.finish(rule="replay of one recorded case")
