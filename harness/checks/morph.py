"""Executor shared by C10 and C11: concretise a lattice tree (optionally moved / renumbered / scaled), ask the real library for
every morphometric, and report it in units of 1e-3 keyed by ORIGINAL node id (spec/Morph.tla, Judge_Morph.tla)."""
from harness import lib
import math, warnings
import numpy as np

NA = 9999


def q(v, s=1.0):
    return int(round(float(v) / s * 1000))


def rot_matrix(axis, theta):
    a = np.asarray(axis, dtype=np.float64); a = a / np.linalg.norm(a)
    K = np.array([[0, -a[2], a[1]], [a[2], 0, -a[0]], [-a[1], a[0], 0]])
    return np.eye(3) + math.sin(theta) * K + (1 - math.cos(theta)) * K.dot(K)


MOTIONS = {
    0: dict(),                                                                     # as given (root at the origin)
    1: dict(shift=(10.0, -20.0, 30.0)),                                            # root away from the origin
    2: dict(rot=((0, 0, 1), math.pi / 2), shift=(5.0, 5.0, -5.0)),                 # lattice rotation
    3: dict(rot=((1, 2, 2), 1.1), shift=(-3.0, 0.5, 8.0)),                         # generic rotation
    4: dict(perm="reverse"),                                                       # renumbering (root stays first)
    5: dict(scale=2.0),
    6: dict(scale=0.37, rot=((3, -1, 2), 2.3), shift=(1.0, 2.0, 3.0), perm="shuffle"),
    7: dict(rot=((0.6, 0.8, 0), math.pi), perm="shuffle"),
    8: dict(scale=1e-6, shift=(2e-6, -1e-6, 3e-6)),                                # metres instead of micrometres
    9: dict(scale=3.0e4, rot=((0, 1, 0), 0.5)),
    10: dict(shift=(5000.0, 7000.0, -3000.0)),                                     # atlas coordinates (lattice values stay exact in single precision)
    11: dict(scale=1.0 / 32, shift=(-20000.0, 30000.0, 25000.0)),                  # a small neuron far from the origin: segments shorter than 1e-5 of the coordinates (exact in single precision)
}


def build(c, motion, rng):
    """returns (tree, orig_of_new: list, scale)"""
    from swcgeom.core import Tree
    P, pos = c["P"], np.array(c["pos"], dtype=np.float64)
    n = len(P)
    m = MOTIONS[motion]
    s = m.get("scale", 1.0)
    xyz = pos * s
    if "rot" in m:
        xyz = xyz.dot(rot_matrix(*m["rot"]).T)
    xyz = xyz + np.array(m.get("shift", (0.0, 0.0, 0.0)))
    order = list(range(n))                         # new index -> original node
    if m.get("perm") == "reverse":
        order = [0] + list(range(n - 1, 0, -1))
    elif m.get("perm") == "shuffle":
        rest = list(range(1, n)); rng.shuffle(rest); order = [0] + rest
    new_of = {o: k for k, o in enumerate(order)}
    pid = [-1 if P[o] == -1 else new_of[P[o]] for o in order]
    rad = [(1.0 + (o % 3) * 0.5) * s for o in order]
    t = Tree(n, source=lib.SRC, id=np.arange(n, dtype=np.int32), pid=np.array(pid, dtype=np.int32), type=np.array([1] + [3] * (n - 1), dtype=np.int32),
             x=xyz[order, 0].astype(np.float32), y=xyz[order, 1].astype(np.float32), z=xyz[order, 2].astype(np.float32),
             r=np.array(rad, dtype=np.float32), tag=np.array(order, dtype=np.int32))
    return t, order, s


def safe(fn):
    try:
        return fn()
    except (ValueError, ZeroDivisionError, AssertionError, FloatingPointError):
        return None


def cosq(deg):
    return NA if deg is None else int(round(math.cos(math.radians(float(deg))) * 1000))


def observe(c, motion, rng, with_volume=False):
    from swcgeom.analysis import Sholl
    from swcgeom.analysis.feature_extractor import extract_feature
    from swcgeom.analysis.features import NodeFeatures, TipFeatures, FurcationFeatures, PathFeatures, BranchFeatures
    from swcgeom.analysis.lmeasure import LMeasure
    from swcgeom.core import BranchTree
    t, order, s = build(c, motion, rng)
    o = collect(c, t, order, s, int(motion in (0, 1, 10)), int("perm" in MOTIONS[motion]))
    o["vol_ratio"] = []
    if with_volume:
        from swcgeom.analysis import get_volume
        t0, _, _ = build(c, 0, rng)
        for lv in (1, 2, 3, 4):
            v0 = float(get_volume(t0, accuracy=lv))
            v1 = float(get_volume(t, accuracy=lv))
            o["vol_ratio"].append(int(round(v1 / (v0 * s ** 3) * 1e6)) if v0 > 0 else 1000000)
    return o


def observe_derived(c, rng):
    """the transformed tree is DERIVED from a tree object that has already been measured, through the library's own transforms
    (anything cached on the original must not leak into the copy)"""
    from swcgeom.transforms import RotateZ, Translate, Scale
    t0, order, _ = build(c, 1, rng)
    collect(c, t0, order, 1.0, 1, 0)
    k = lib.vid(c) % 3
    t = t0
    if k != 1:
        t = RotateZ(math.pi / 2, center="origin")(t)
        t = Translate(3.0, -4.0, 5.0)(t)
    s = 1.0
    if k != 2:
        s = 2.0
        t = Scale(s, s, s, center="origin")(t)
    o = collect(c, t, order, s, 0, 0)
    o["vol_ratio"] = []
    return o


def observe_edited(c, rng):
    """a history: a tree with one node elsewhere (other parent, other position) is measured completely, then edited in place through the
    node's handle into the case's tree, and measured again; the second set of answers is judged (nothing remembered may survive the edit)"""
    P, pos = c["P"], c["pos"]
    n = len(P)
    if n < 2:
        return observe(c, 0, rng)
    i = 1 + lib.vid(c) % (n - 1)
    pre = dict(c)
    pre["P"] = list(P); pre["P"][i] = 0
    pre["pos"] = [list(p) for p in pos]; pre["pos"][i] = [pos[i][0] + 1, pos[i][1] - 2, pos[i][2]]
    t, order, s = build(pre, 0, rng)
    collect(pre, t, order, s, 1, 0)
    if lib.vid(c) % 2:
        t = t.copy()
    nd = t.node(i)
    nd.pid = P[i]
    nd.x, nd.y, nd.z = float(pos[i][0]), float(pos[i][1]), float(pos[i][2])
    o = collect(c, t, order, s, 1, 0)
    o["vol_ratio"] = []
    return o


def collect(c, t, order, s, exact, renumbered):
    from swcgeom.analysis import Sholl
    from swcgeom.analysis.feature_extractor import extract_feature
    from swcgeom.analysis.features import NodeFeatures, TipFeatures, FurcationFeatures, PathFeatures, BranchFeatures
    from swcgeom.analysis.lmeasure import LMeasure
    from swcgeom.core import BranchTree
    n = len(order)
    org = lambda i: int(order[int(i)])
    fe = extract_feature(t)
    lm = LMeasure()
    nf = NodeFeatures(t)
    o = {"exact": exact, "renumbered": renumbered}
    o["cnt"] = [int(round(float(fe.get("node_count")[0]))), int(round(float(fe.get("tip_count")[0]))), int(round(float(fe.get("furcation_count")[0]))),
                int(BranchFeatures(t).get_count()), int(PathFeatures(t).get_count())]
    o["lmcnt"] = [int(lm.n_stems(t)), int(lm.n_bifs(t)), int(lm.n_branch(t)), int(lm.n_tips(t))]
    o["length"] = q(t.length(), s)
    o["length_fe"] = q(fe.get("length")[0], s)
    brs = t.get_branches()
    o["branch_len_sum"] = q(sum(float(v) for v in fe.get("branch_length")), s)
    bl, btort = BranchFeatures(t).get_length(), BranchFeatures(t).get_tortuosity()
    o["branches"] = [[org(b.origin_id()[-1]), org(b.origin_id()[0]), q(bl[k], s), q(btort[k])] for k, b in enumerate(brs)]
    paths = t.get_paths()
    pl, ptort = fe.get("path_length"), fe.get("path_tortuosity")
    o["paths"] = [[org(p.origin_id()[-1]), q(pl[k], s), q(ptort[k])] for k, p in enumerate(paths)]
    rad = fe.get("node_radial_distance")
    inv = [0] * n
    for k in range(n):
        inv[org(k)] = q(rad[k], s)
    o["radial"] = inv
    tips = [k for k in range(n) if t.node(k).is_tip()]
    furc = [k for k in range(n) if t.node(k).is_furcation()]
    tr, fr = fe.get("tip_radial_distance"), fe.get("furcation_radial_distance")
    o["tip_radial"] = [[org(k), q(tr[j], s)] for j, k in enumerate(tips)] if len(tr) == len(tips) else [[-1, 0]]
    o["furc_radial"] = [[org(k), q(fr[j], s)] for j, k in enumerate(furc)] if len(fr) == len(furc) else [[-1, 0]]
    bt = BranchTree.from_tree(t)
    bo = fe.get("node_branch_order")
    o["bt_order"] = [[int(bt.ndata["tag"][k]), int(bo[k])] for k in range(len(bo))] if len(bo) == len(bt.id()) else [[-1, 0]]
    rs = [math.sqrt(a / b) * s for a, b in c["radii"]]
    if n >= 2:
        sh = Sholl(t)
        o["sholl_intersect"] = [int(sh.intersect(r)) for r in rs]
        o["sholl_get"] = [int(v) for v in sh.get(steps=np.array(rs))]
        o["sholl_fe"] = [int(round(float(v))) for v in fe.get("sholl", steps=np.array(rs))]
        o["sholl_steps"] = [int(v) for v in sh.get(steps=int(c["steps"]))]
    else:       # a tree without segments: the library rejects it as input to the Sholl analysis ("invalid tree"); nothing is claimed
        o["sholl_intersect"] = o["sholl_get"] = o["sholl_fe"] = [0 for _ in rs]
        o["sholl_steps"] = [0] * int(c["steps"])
    lmn = [None] * n
    for k in range(n):
        nd = t.node(k)
        lmn[org(k)] = [q(lm.path_distance(nd), s), q(lm.euc_distance(nd), s), int(lm.branch_order(nd)), int(lm.terminal_degree(nd))]
    o["lm_node"] = lmn
    o["lm_branch"] = []
    for b in brs:
        ct = safe(lambda: lm.contraction(b))
        o["lm_branch"].append([org(b.origin_id()[-1]), q(lm.branch_pathlength(b), s), NA if ct is None or not math.isfinite(float(ct)) else q(ct), int(lm.fragmentation(b))])
    o["lm_bif"] = []
    for k in range(n):
        nd = t.node(k)
        if len(nd.children()) != 2:
            continue
        pa = lm.partition_asymmetry(nd)
        o["lm_bif"].append([org(k), q(pa), cosq(safe(lambda: lm.bif_ampl_local(nd))), cosq(safe(lambda: lm.bif_ampl_remote(nd))),
                            cosq(safe(lambda: lm.bif_tilt_local(nd))), cosq(safe(lambda: lm.bif_tilt_remote(nd))),
                            cosq(safe(lambda: lm.bif_torque_local(nd))), cosq(safe(lambda: lm.bif_torque_remote(nd)))])
    return o


STEM_N, STEM_K = 20, 10000
CUBE = [(0, 0, 0), (1, 0, 0), (1, 1, 0), (0, 1, 0), (0, 1, 1), (1, 1, 1), (1, 0, 1), (0, 0, 1)]


def observe_stem(c, rng):
    """the case's tree behind a long stem (Morph.StemP / StemPos): 20 segments of 10^4 lattice units along the edges of a cube, so that coordinates stay
    small while path distances reach 2 * 10^5 units; the unit is 0.37 (nothing is exactly representable); lengths only"""
    from swcgeom.analysis.feature_extractor import extract_feature
    from swcgeom.analysis.features import BranchFeatures
    from swcgeom.analysis.lmeasure import LMeasure
    from swcgeom.core import Tree
    s = 0.37
    P0, pos0 = c["P"], c["pos"]
    stem = [[STEM_K * v for v in CUBE[j % 8]] for j in range(STEM_N + 1)]
    e = stem[-1]
    P = [-1] + list(range(STEM_N)) + [STEM_N if p == -1 else p + STEM_N + 1 for p in P0]
    pos = np.array(stem + [[e[0] + 1 + q_[0], e[1] + q_[1], e[2] + q_[2]] for q_ in pos0], dtype=np.float64) * s
    n = len(P)
    t = Tree(n, source=lib.SRC, id=np.arange(n, dtype=np.int32), pid=np.array(P, dtype=np.int32), type=np.array([1] + [3] * (n - 1), dtype=np.int32),
             x=pos[:, 0].astype(np.float32), y=pos[:, 1].astype(np.float32), z=pos[:, 2].astype(np.float32), r=np.full(n, 0.5, dtype=np.float32))
    fe, lm = extract_feature(t), LMeasure()
    o = {"length": q(t.length(), s), "length_fe": q(fe.get("length")[0], s)}
    brs = t.get_branches()
    o["branch_len_sum"] = q(sum(float(v) for v in fe.get("branch_length")), s)
    bl = BranchFeatures(t).get_length()
    o["branches"] = [[int(b.origin_id()[-1]), int(b.origin_id()[0]), q(bl[k], s), 0] for k, b in enumerate(brs)]
    pl = fe.get("path_length")
    o["paths"] = [[int(p.origin_id()[-1]), q(pl[k], s), 0] for k, p in enumerate(t.get_paths())]
    o["lm_node"] = [[q(lm.path_distance(t.node(k)), s), 0, 0, 0] for k in range(n)]
    o["lm_branch"] = [[int(b.origin_id()[-1]), q(lm.branch_pathlength(b), s), 0, int(lm.fragmentation(b))] for b in brs]
    return o


def observe_pop(c, rng):
    from swcgeom.core import Population
    from swcgeom.analysis.feature_extractor import extract_feature
    trees = [build(tc, (k + lib.vid(c)) % 4, rng)[0] for k, tc in enumerate(c["trees"])]
    with warnings.catch_warnings():
        warnings.simplefilter("ignore")
        pop = Population(trees)
        fe = extract_feature(pop)
        rows = fe.get("path_length")
        counts = fe.get("node_count")
        o = {"rows": [[q(v) for v in row] for row in rows], "counts": [[q(v) for v in row] for row in counts], "sholl": 0, "shA": [], "shB": [], "shA2": []}
        if all(len(tc["P"]) >= 2 for tc in c["trees"]):          # (a one-node tree is rejected by the Sholl analysis; nothing is claimed there)
            ra = np.array([math.sqrt(1 / 2), math.sqrt(9 / 2)])
            rb = np.array([math.sqrt(51 / 2), math.sqrt(1 / 2), math.sqrt(9 / 2)])
            ints = lambda m: [[int(round(float(v))) for v in row] for row in m]
            o.update(sholl=1, shA=ints(fe.get("sholl", steps=ra)), shB=ints(fe.get("sholl", steps=rb)), shA2=ints(fe.get("sholl", steps=ra)))
        o["rows2"] = [[q(v) for v in row] for row in fe.get("path_length")]
    return o
