"""C17 — point-cloud tree construction yields the intended spanning tree (spec/Mst.tla)."""
import itertools, math
import numpy as np

RULE = ("point sets = every ordered selection of 2-4 points from an 8-point lattice block (collinear runs, 3-4-5 rectangles, exact ties included) "
        "x balancing factor {0, 1/5, 2/5, 1/2, 1} x branching limit {-1,1,2,3} (random clouds also 12 and 15 with strong balancing, where a large limit still binds) x root exemption x soma given or first point x sorting on/off "
        "(options cycled), plus random clouds of 5-120 points in general position (float64 and float32, some far from the origin); a third of the clouds are handed to a transform object that "
        "was applied to tiny clouds before (histories: no call may leave state behind); the observed "
        "tree is validated by Trace_Mst: TLC re-runs the greedy machine and requires a cost-minimal admissible pair among the observed edges at "
        "every attachment; non-trivial = at least 4 points; distinct by (points, options)")
Q = 10000          # distances in units of 1e-4
BFS = [(0, 1), (1, 5), (2, 5), (1, 2), (1, 1)]


def build_case(pts, soma, bf, k, ex, sort, dtype, api, unit=1.0):
    """unit: the length unit of the coordinates (distances are handed to TLC in units of 1e-4 of it: the statement is free of units)"""
    allp = np.array(([soma] if soma is not None else []) + list(pts), dtype=np.float64)
    if dtype == "f32":
        allp = allp.astype(np.float32).astype(np.float64)         # the values the library is actually given
    n = len(allp)
    D = np.linalg.norm(allp[:, None, :] - allp[None, :, :], axis=2) / unit
    err = 1e-9 * (1 + np.abs(allp).max() / unit)
    if dtype == "f32":
        err = 8 * float(np.spacing(np.float32(np.abs(allp).max() + D.max())))       # float32 arithmetic inside the library
    equ = int(math.ceil(err * Q)) + 1
    p, q = bf
    return {"n": n, "D": [[int(round(v * Q)) for v in row] for row in D], "p": p, "q": q, "k": k, "ex": bool(ex), "sort": bool(sort),
            "eps": q * equ + p * n * equ, "tol": 2 * equ, "pts": [[float(v) for v in r] for r in pts], "soma": [] if soma is None else [float(v) for v in soma],
            "dtype": dtype, "api": api}


def lib_vid(c):
    from harness import lib as _lib
    return _lib.vid(c)


def execute(c):
    from swcgeom.transforms import PointsToCuntzMST, PointsToMST
    dt = {"f32": np.float32, "f64": np.float64, "i64": np.int64, "i32": np.int32}[c["dtype"]]
    pts = np.array(c["pts"], dtype=dt)
    soma = None if not c["soma"] else np.array(c["soma"], dtype=(np.float64 if np.dtype(dt).kind == "i" else dt))     # a soma need not sit on a voxel centre
    if c["api"] == "mst":
        if lib_vid(c) % 4 == 1:
            import warnings as _w
            with _w.catch_warnings():
                _w.simplefilter("ignore")
                tf = PointsToMST(k_furcations=c["k"], exclude_soma=c["ex"], sort=c["sort"])      # the older spelling of the same option (still public)
        else:
            tf = PointsToMST(furcations=c["k"], exclude_soma=c["ex"], sort=c["sort"])
    else:
        tf = PointsToCuntzMST(bf=c["p"] / c["q"], furcations=c["k"], exclude_soma=c["ex"], sort=c["sort"])
    for prev in c.get("prev", []):         # the same transform object has been applied to other (smaller) clouds before: no call may leave state behind
        tf(np.array(prev, dtype=dt))
    t = tf(pts.copy(), soma) if soma is not None else tf(pts.copy())
    allp = np.concatenate([[soma], pts]) if soma is not None else pts
    n = len(allp)
    xyz = np.stack([t.x(), t.y(), t.z()], axis=1).astype(np.float64)
    # map every node of the result to the input point it is (exact coordinates)
    # (coincident input points are interchangeable: the k-th node at a position stands for the k-th input point at that position)
    key = {}
    for i in range(n):
        key.setdefault(tuple(np.asarray(allp[i], dtype=np.float32).tolist()), []).append(i)
    idx = []
    for m in range(len(xyz)):
        lst = key.get(tuple(np.asarray(xyz[m], dtype=np.float32).tolist()), [])
        idx.append(lst.pop(0) if lst else -1)
    attrok = int(len(xyz) == n and sorted(idx) == list(range(n)) and [int(v) for v in t.id()] == list(range(n)))
    par = [-2] * n
    if attrok:
        for m in range(n):
            pm = int(t.pid()[m])
            par[idx[m]] = -1 if pm == -1 else idx[pm]
    return {"par": par if attrok else [-1] + [0] * (n - 1), "attrok": attrok}


def keyfn(c, o, why):
    return "%s:%s:%s" % (c["api"], why, "bf>0" if c["p"] else "bf=0")


def nontrivial(c):
    return c["n"] >= 4


LATTICE = [(0, 0, 0), (3, 0, 0), (0, 4, 0), (3, 4, 0), (6, 0, 0), (9, 0, 0), (6, 8, 0), (0, 0, 12)]


def lattice_cases(ctx, q):
    cases, t = [], 0
    for m in (2, 3, 4):
        for sel in itertools.permutations(range(len(LATTICE)), m):
            if q and m == 4 and (sum(sel) + sel[0]) % 7:
                continue
            t += 1
            bf = BFS[t % 5]; k = [-1, 1, 2, 3][(t // 5) % 4]; ex = (t // 20) % 2; sort = (t // 40) % 2
            pts = [LATTICE[i] for i in sel]
            soma = pts[0] if (t // 80) % 2 else None
            if soma is not None:
                pts = pts[1:]
                if not pts:
                    continue
                if t % 4 in (1, 3) and (t // 4) % 2:
                    soma = (soma[0] + 0.5, soma[1] + 0.25, soma[2] - 0.25)          # integer (voxel index) cloud, soma between voxel centres
            api = "mst" if bf == (0, 1) and t % 3 == 0 else "cuntz"
            c = build_case(pts, soma, bf, k, ex, sort, ["f64", "i64", "f64", "i32"][t % 4], api)       # voxel indices (integer arrays) are point clouds too
            if t % 4 == 1:
                c["prev"] = [[list(LATTICE[0]), list(LATTICE[7])]]
            cases.append(c)
            if t % 6 == 2 and m >= 3:
                # coincident points: a point recorded twice (pooled tracings), or the soma given again as a point of the cloud
                dup = list(pts) + [pts[t % len(pts)]] if (t // 6) % 2 else [soma if soma is not None else pts[0]] + list(pts)
                d = build_case(dup, soma, bf, k, ex, sort, ["f64", "f32"][(t // 12) % 2], "mst" if bf == (0, 1) else "cuntz")
                cases.append(d)
    return cases


def random_cases(ctx, count, nmax):
    rng = np.random.default_rng(ctx.seed + 17)
    out = []
    for t in range(count):
        n = int(rng.integers(5, nmax + 1)) if t % 10 else int(rng.integers(nmax, 2 * nmax))
        dtype = "f32" if t % 3 == 0 else "f64"
        off = [0.0, 0.0, 0.0] if t % 4 else list(rng.choice([50.0, 800.0, 8000.0], 3))
        if dtype == "f32":                      # float32 clouds far from the origin: where a cancellation-prone distance formula would show
            off = [[0.0, 0.0, 0.0], [50.0, -80.0, 20.0], [800.0, 900.0, -700.0], [8000.0, 7000.0, -9000.0]][(t // 3) % 4]
        pts = rng.random((n, 3)) * float(rng.choice([10.0, 60.0, 300.0])) + np.array(off)
        bf = BFS[t % 5]; k = [-1, 2, 3, 1, -1, 12, 15][(t // 5) % 7]; ex = (t // 7) % 2
        soma = None if t % 2 else list(pts.mean(axis=0))
        if t % 8 == 4 and dtype == "f64":
            # atlas-sized coordinates with the soma a fraction of a unit away from a point of the cloud (a distinct point, far below 1e-5 of the coordinates)
            pts = pts + np.array([41234.5, -38765.25, 52000.75])
            soma = list(pts[int(rng.integers(0, n))] + np.array([0.31, -0.22, 0.27]))
        api = "mst" if bf == (0, 1) and t % 2 == 0 else "cuntz"
        if t % 6 == 3:
            # coincident points in a general cloud: two rows recorded twice, and (when a soma is given) the soma again as a row
            pts = np.concatenate([pts, pts[:2]] + ([np.array([soma])] if soma is not None else []))
        unit = 1.0
        if t % 9 == 5 and dtype == "f64":
            # the same kind of cloud given in metres instead of micrometres
            unit = 1e-6
            pts = (pts - pts.mean(axis=0)) * unit
            soma = None if soma is None else list(pts.mean(axis=0))
        c = build_case([list(r) for r in pts], soma, bf, k, ex, t % 3 != 1, dtype, api, unit=unit)
        if t % 3 == 2:              # a history: the transform object is first used on tiny clouds
            c["prev"] = [[list(r) for r in pts[:2]]] + ([[list(r) for r in pts[2:5]]] if t % 2 else [])
        out.append(c)
    return out


def run(ctx):
    q = ctx.tier == "quick"
    ctx.mc("MC_Mst", "MC_Mst.%s.cfg" % ctx.tier, deadlock=False, expect_actions=["Step"])
    ctx.mc_expect_violation("MC_Mst", "MC_Mst.wrongaxis.cfg", "GreedyStep", deadlock=False)
    lc = lattice_cases(ctx, q)
    p = ctx.write_cases("lattice", lc)
    ctx.run_cases("lattice", lc, p, execute, "Trace_Mst", keyfn, nontrivial)
    rc = random_cases(ctx, 60 if q else 600, 40 if q else 120)
    p = ctx.write_cases("random", rc)
    ctx.run_cases("random", rc, p, execute, "Trace_Mst", keyfn, nontrivial, per_case_timeout=120)
    ctx.assumptions += ["distances are handed to TLC as integers in units of 1e-4, computed in float64 from the exact input values; eps / tol are the stated rounding allowances "
                        "(float32 inputs: 8 ulp of the largest magnitude involved), so a step is rejected only if the observed choice is worse than the best admissible one by more than rounding",
                        "the order of attachment is not observable; TLC lets the observed tree pick among the cost-minimal admissible pairs at every step",
                        "nodes of the result are identified with input points by their exact coordinates"]
    return ctx.finish(rule=RULE)


def replay(ctx, rec):
    c = rec["case"]
    p = ctx.write_cases("replay", [c])
    ctx.run_cases("replay", [c], p, execute, "Trace_Mst", keyfn, per_case_timeout=120)
    return ctx.finish(rule="replay of one recorded case")
