"""C05 — node renumbering is a pure relabelling with parents before children (spec/SortNodes.tla)."""
import io
import numpy as np
from harness import lib

RULE = ("cases = every single-rooted table up to the bound: every topology with the root row anywhere x every injective id assignment "
        "from the id pools (contiguous, 1-based, scattered) x {table form, file form, tree form}; each with one extra per-node column; "
        "non-trivial = at least 3 rows and the input is not already sorted; distinct by (op, ids, topology)")
COLS = ["type", "x", "y", "z", "r", "e"]
FRAC = 0.1234567890123          # enc 1: float64 columns whose values no float32 can hold


def enc_of(c):
    """how abstract column values are stored: 0 = float32 as the constructors make them, 1 = float64 columns with full-precision values
    (table and tree forms only; a file is read into the library's own column types)"""
    return 0 if c["op"] == "read_sorted" else lib.vid(c) % 3 == 2


def conc(v, k, enc):
    if k == "type":
        return int(v)
    if k == "e" and v == -1:
        return float("nan")          # a missing value in the extra column
    return float(v) * 8.0 + FRAC if enc else float(v)


def column(c, j, k, enc):
    vals = [conc(row[j], k, enc) for row in c["cols"]]
    return np.array(vals, dtype=np.int32 if k == "type" else (np.float64 if enc else np.float32))


def absv(x, k, enc):
    """concrete value -> abstract integer (exactly; -99999 if it is not the image of one)"""
    if k == "type":
        return int(x)
    x = float(x)
    if x != x or (k == "e" and x == -1.0):
        return -1                    # missing: NaN in tables and trees, the literal -1 in files (the line grammar has no NaN)
    v = (x - FRAC) / 8.0 if enc else x
    r = int(round(v))
    return r if conc(r, k, enc) == x else -99999


def mk_df(c):
    import pandas as pd
    enc = enc_of(c)
    d = {"id": np.array(c["ids"], dtype=np.int32)}
    for j, k in enumerate(COLS):
        d[k] = column(c, j, k, enc)
    d["pid"] = np.array(c["pids"], dtype=np.int32)
    df = pd.DataFrame(d)
    return df[["id", "type", "x", "y", "z", "r", "pid", "e"]]


def proj_df(df, enc):
    rcols = [[absv(df[k].iloc[i], k, enc) for k in COLS] for i in range(len(df))]
    mp = [row[1] - 101 for row in rcols]
    return mp, [int(v) for v in df["id"]], [int(v) for v in df["pid"]], rcols


def proj_tree(t, enc):
    n = len(t.id())
    rcols = [[absv(t.ndata[k][i], k, enc) for k in COLS] for i in range(n)]
    return [row[1] - 101 for row in rcols], [int(v) for v in t.id()], [int(v) for v in t.pid()], rcols


def execute(c):
    from swcgeom.core import Tree, sort_tree
    from swcgeom.core.swc_utils import sort_nodes, sort_nodes_, read_swc, is_sorted
    op = c["op"]
    enc = enc_of(c)
    if op == "sort_tree":
        cols = c["cols"]
        kw = {k: column(c, j, k, 0) for j, k in enumerate(COLS)}
        t = Tree(len(cols), source=lib.SRC, id=np.array(c["ids"], dtype=np.int32), pid=np.array(c["pids"], dtype=np.int32), **kw)
        if enc:
            for j, k in enumerate(COLS):
                if k != "type":
                    t.ndata[k] = column(c, j, k, 1)         # the tree holds float64 columns (as after a user-supplied affine matrix)
        if lib.vid(c) % 4 == 3 and len(cols) >= 3:
            # a history: the tree was sorted (and asked whether it is sorted) while one node hung elsewhere, then that node was re-parented in place
            ps = lib.pre_state([(-1 if q == -1 else q) for q in c["Q"]], lib.vid(c) // 4)
            if ps is not None and c["Q"][0] == -1:
                Q0, i = ps
                t.node(i).pid = Q0[i]
                sort_tree(t); is_sorted((t.id(), t.pid()))
                t.node(i).pid = c["pids"][i]
        snap = lib.snapshot(t)
        if lib.vid(c) % 5 == 4:
            lib.scribble(sort_tree(t))          # an earlier result of the same call was overwritten in place by its owner
        r = sort_tree(t)
        mp, rids, rpids, rcols = proj_tree(r, enc)
        s = is_sorted((r.id(), r.pid()))
        r2 = sort_tree(r)
        mp2, rids2, rpids2, rcols2 = proj_tree(r2, enc)
        ch = lib.changed(t, snap)
    else:
        df = mk_df(c)
        before = df.copy()
        if op == "sort_table":
            if lib.vid(c) % 5 == 4:
                lib.scribble(sort_nodes(df))
            if lib.vid(c) % 2:
                r = sort_nodes(df)
            else:
                r = df.copy(); sort_nodes_(r)
        else:
            text = "# id type x y z r pid e\n" + "".join(
                "%d %d %s %s %s %s %d %s\n" % (c["ids"][k], row[0], row[1], row[2], row[3], row[4], c["pids"][k], row[5])
                for k, row in enumerate(c["cols"]))
            src = io.StringIO(text) if lib.vid(c) % 2 else io.BytesIO(text.encode())
            r, _ = read_swc(src, extra_cols=["e"], sort_nodes=True)
        mp, rids, rpids, rcols = proj_df(r, enc)
        s = is_sorted((r["id"].to_numpy(), r["pid"].to_numpy()))
        if (lib.vid(c) // 2) % 2:
            r2 = sort_nodes(r)
        else:
            r2 = r.copy(); sort_nodes_(r2)      # the other form of the same operation, applied to what the first one returned
        mp2, rids2, rpids2, rcols2 = proj_df(r2, enc)
        # second-generation map is relative to the first result's rows
        ch = 0 if df.equals(before) else 1
    # map2: new row -> row of the first result (via the same tag): compose through mp
    inv = {old: k for k, old in enumerate(mp)}
    mp2 = [inv.get(v, -1) for v in mp2]
    return {"map": mp, "rids": rids, "rpids": rpids, "rcols": rcols, "issorted": int(bool(s)), "srcchanged": ch,
            "map2": mp2, "rids2": rids2, "rpids2": rpids2, "rcols2": rcols2}


def keyfn(c, o, why):
    return "%s:%s" % (c["op"], why)


def nontrivial(c):
    n = len(c["ids"])
    return n >= 3 and not all(c["pids"][k] < c["ids"][k] for k in range(n))


def free_cases(ctx, count, nmax):
    rng = ctx.rng
    out = []
    for _ in range(count):
        n = rng.randint(5, nmax)
        style = rng.random()          # from bushy to chain-like (long root-to-tip paths)
        par = [-1] + [(rng.randrange(0, i) if rng.random() < style else i - 1) for i in range(1, n)]
        order = list(range(n)); rng.shuffle(order)          # row k holds abstract node order[k]
        if rng.random() < 0.2:
            order = list(range(n))[::-1]                    # tip first
        row_of = {v: k for k, v in enumerate(order)}
        op = rng.choice(["sort_table", "read_sorted", "sort_tree"])
        if op == "sort_tree":
            ids = list(range(n))
        else:
            ids = rng.sample(range(0, 5 * n), n)
        Q = [(-1 if par[order[k]] == -1 else row_of[par[order[k]]]) for k in range(n)]
        pids = [(-1 if q == -1 else ids[q]) for q in Q]
        cols = [[1 + (k + 1) % 3, 100 + k + 1, (7 * (k + 1)) % 5, (3 * (k + 1)) % 4, 1 + (k + 1) % 2, (-1 if rng.random() < 0.3 else 300 + 2 * (k + 1))] for k in range(n)]
        out.append({"op": op, "ids": ids, "Q": Q, "pids": pids, "cols": cols})
    return out


def run(ctx):
    ctx.mc("MC_SortNodesAlg", "MC_SortNodesAlg.%s.cfg" % ctx.tier, expect_actions=["Pop", "Finish"])
    cases, path = ctx.gen("Gen_SortNodes", "Gen_SortNodes.%s.cfg" % ctx.tier)
    ctx.run_cases("enumerated", cases, path, execute, "Judge_SortNodes", keyfn, nontrivial)
    fc = free_cases(ctx, 200 if ctx.tier == "quick" else 3000, 15 if ctx.tier == "quick" else 60)
    p = ctx.write_cases("free", fc)
    ctx.run_cases("free", fc, p, execute, "Judge_SortNodes", keyfn, nontrivial)
    ctx.assumptions += ["abstract column values are stored exactly (float32 integers, or float64 v*8+0.1234567890123) and recovered exactly; a value that is not the image of an abstract value is reported as -99999",
                        "row identity is recovered from a unique tag in the x column; every other column (type,y,z,r,extra) is compared by TLC"]
    return ctx.finish(rule=RULE)


def replay(ctx, rec):
    c = rec["case"]
    p = ctx.write_cases("replay", [c])
    ctx.run_cases("replay", [c], p, execute, rec.get("judge", "Judge_SortNodes"), keyfn)
    return ctx.finish(rule="replay of one recorded case")
