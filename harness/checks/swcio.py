"""Executor shared by C01 and C02: renders abstract SWC files (spec/SwcIO.tla) to text / bytes / files, drives the real
reader and writer, projects what came back to integers and strings."""
from harness import lib
import io, os, shutil, tempfile, warnings
import numpy as np

SCRATCH = None
# characters that cannot be written in a TLA+ string literal are carried as {NAME} in abstract comment bodies
CONC = {"{FF}": "\x0c", "{VT}": "\x0b", "{FS}": "\x1c", "{LS}": "\u2028", "{NEL}": "\x85", "{TAB}": "\t"}


def conc(s):
    for k, v in CONC.items():
        s = s.replace(k, v)
    return s


def abst(s):
    for k, v in CONC.items():
        s = s.replace(v, k)
    return s


def scratch():
    global SCRATCH
    if SCRATCH is None or not os.path.isdir(SCRATCH):
        SCRATCH = tempfile.mkdtemp(prefix="verif_swcio_")
    return SCRATCH


def cleanup():
    global SCRATCH
    if SCRATCH and os.path.isdir(SCRATCH):
        shutil.rmtree(SCRATCH, ignore_errors=True)
    SCRATCH = None


def join_tokens(toks, sp):
    if sp == 2:
        return "\t".join(toks)
    if sp == 3:
        return "  " + "   ".join(toks)
    if sp == 4:
        return "\t" + " \t ".join(toks) + "  "
    return " ".join(toks)


def render_line(ln, k, as_text):
    """abstract line -> bytes (or str for a text stream)"""
    kind = ln["k"]
    if kind == "D":
        s = join_tokens(ln["toks"], ln.get("sp", 1))
    elif kind == "M":
        s = join_tokens(ln["toks"], 1 + k % 2)
    elif kind == "C":
        s = ("  " if k % 3 == 0 else "") + "#" + " " * ln["lead"] + conc(ln["body"])
    elif kind == "B":
        s = ["", "   ", "\t", " " * 2100][ln["sp"]]
    elif kind == "U":
        if as_text:
            return "#" + " " * ln["lead"] + ln["body"].replace("?", "é")
        return b"#" + b" " * ln["lead"] + ln["body"].replace("?", "é").encode("latin-1")
    else:
        raise ValueError(kind)
    return s if as_text else s.encode("ascii")


def render_file(file, nl, term, as_text):
    sep = {0: "\n", 1: "\r\n", 2: "\r"}[nl]
    lines = [render_line(ln, k, as_text) for k, ln in enumerate(file)]
    if as_text:
        return sep.join(lines) + (sep if term and lines else "")
    sepb = sep.encode()
    return sepb.join(lines) + (sepb if term and lines else b"")


def proj_comment(c):
    c = abst(c.rstrip("\r"))
    body = c.lstrip(" ")
    body = "".join(ch if ord(ch) < 128 else "?" for ch in body)
    return [len(c) - len(c.lstrip(" ")), body]


def q4(v):
    return int(round(float(v) * 1e4))


def rows_of_df(df, extra):
    cols = ["id", "type", "x", "y", "z", "r", "pid"] + (["e"] if extra else [])
    out = []
    for i in range(len(df)):
        r = []
        for c in cols:
            v = df[c].iloc[i]
            r.append(int(v) if c in ("id", "type", "pid") else q4(v))
        out.append(r)
    return out


def rows_of_tree(t):
    n = len(t.id())
    return [[int(t.id()[i]), int(t.type()[i]), q4(t.x()[i]), q4(t.y()[i]), q4(t.z()[i]), q4(t.r()[i]), int(t.pid()[i])] for i in range(n)]


def exec_read(c):
    from swcgeom.core import Tree
    from swcgeom.core.swc_utils import read_swc
    o = c["o"]
    as_text = o["src"] == 0
    nl, enc = o["nl"], o["enc"]
    plain = not any(ln["k"] == "U" for ln in c["file"])
    if not as_text and lib.vid(c) % 7 == 3:
        nl = 2                  # lines ended by a bare carriage return (bytes and files are decoded with universal newlines)
    if not as_text and plain and lib.vid(c) % 5 == 0:
        enc = "detect"          # the documented "detect the character encoding" mode (an all-ASCII file)
    data = render_file(c["file"], nl, o["term"], as_text)
    if o["src"] == 0:
        src = io.StringIO(data)
    elif o["src"] == 1:
        src = io.BytesIO(data)
    else:
        src = os.path.join(scratch(), "neuron.swc")
        with open(src, "wb") as f:
            f.write(data)
    kw = dict(sort_nodes=(o["mode"] == 0), reset_index=(o["mode"] == 1), encoding=enc)
    if o["nex"]:
        # the requested extra columns are "an iterable of names": a list, a tuple, a dict view, or something that can be walked only once
        kw["extra_cols"] = [lambda: ["e"], lambda: ("e",), lambda: iter(["e"]), lambda: (k for k in ["e"]), lambda: {"e": 0}.keys(), lambda: map(str, ["e"])][lib.vid(c) % 6]()
    try:
        with warnings.catch_warnings(record=True) as ws:
            warnings.simplefilter("always")
            if o["entry"] == 0:
                df, comments = read_swc(src, **kw)
                rows = rows_of_df(df, o["nex"])
            else:
                if o["src"] == 2 and lib.vid(c) % 3 == 0:
                    # the lazy read of a population over the directory that holds just this file (errors may come at construction or on access)
                    from swcgeom.core import Population
                    pop = Population.from_swc(os.path.dirname(src), **kw)
                    if len(pop) != 1:
                        raise ValueError("population lists %d files" % len(pop))
                    t = pop[0]
                else:
                    t = Tree.from_swc(src, **kw)
                rows, comments = rows_of_tree(t), t.comments
    finally:
        if o["src"] == 2 and os.path.exists(src):
            os.remove(src)
    warned = int(len(ws) > 0)          # any warning, whatever its text or category
    # identity of a row = its x value (pairwise distinct by construction)
    dl = [ln for ln in c["file"] if ln["k"] == "D"]
    xs = [ln["fv"][0] for ln in dl]
    mp = [xs.index(r[2]) if r[2] in xs else -1 for r in rows]
    return {"rows": rows, "com": [proj_comment(x) for x in comments], "warned": warned, "map": mp}


def mk_rt_tree(c):
    from swcgeom.core import Tree
    t = c["t"]
    n = len(t["P"])
    def col(j):
        return np.array([a[j][0] * a[j][1] * 1e-5 for a in t["v"]], dtype=np.float32)
    if "fvals" in c:      # free-running cases carry the float32 values themselves
        fv = np.array(c["fvals"], dtype=np.float32)
        x, y, z, r = fv[:, 0], fv[:, 1], fv[:, 2], fv[:, 3]
    else:
        x, y, z, r = col(0), col(1), col(2), col(3)
    return Tree(n, id=np.arange(n, dtype=np.int32), pid=np.array(t["P"], dtype=np.int32), type=np.array(t["ty"], dtype=np.int32),
                x=x.copy(), y=y.copy(), z=z.copy(), r=r.copy(), comments=[" " * cm[0] + conc(cm[1]) for cm in t["com"]])


def tokval(j, tk):
    """numeric value of a written token: integers as they are, floats in units of 10^-4 (must be exact in four decimals)"""
    from fractions import Fraction
    try:
        if j in (0, 1, 6):
            return int(tk)
        q = Fraction(tk) * 10000
        return int(q) if q.denominator == 1 else 2000000001
    except ValueError:
        return 2000000002


def written_lines(text):
    out = []
    parts = text.split("\n")
    if parts and parts[-1] == "":
        parts = parts[:-1]
    for line in parts:
        if line.startswith("#"):
            rest = line[1:]
            out.append({"k": "C", "lead": len(rest) - len(rest.lstrip(" ")), "body": abst(rest.lstrip(" ")), "vals": []})
        else:
            out.append({"k": "D", "lead": 0, "body": "", "vals": [tokval(j, tk) for j, tk in enumerate(line.split())]})
    return out


def exec_roundtrip(c):
    from swcgeom.core import Tree
    t = mk_rt_tree(c)
    src = c["src"]
    kw = dict(id_offset=c["off"], comments=bool(c["wc"]), source=(False if src == "" else (True if src == "Unknown" else src)))
    before_comments = list(t.comments)
    if c["kind"] == 2:
        p = os.path.join(scratch(), "neuron.swc")
        try:
            t.to_swc(p, **kw)
            text = open(p, encoding="utf-8").read()
            t2 = Tree.from_swc(p)
        finally:
            if os.path.exists(p):
                os.remove(p)
    else:
        text = t.to_swc(**kw)
        t2 = Tree.from_swc(io.StringIO(text) if c["kind"] == 0 else io.BytesIO(text.encode("utf-8")))
    text2 = t2.to_swc(source=False, id_offset=c["off"])
    t3 = Tree.from_swc(io.StringIO(text2))
    # writing is reading: the same object written again (same options) gives the same text, and its own comment list is what it was
    again = int(t.to_swc(**kw) == text and list(t.comments) == before_comments)
    return {"wl": written_lines(text), "rows": rows_of_tree(t2), "com": [proj_comment(x) for x in t2.comments],
            "rows2": rows_of_tree(t3), "com2": [proj_comment(x) for x in t3.comments], "again": again}


BB = 10 ** 8


def limbs(n):
    out = []
    while n:
        out.append(int(n % BB)); n //= BB
    return out


def bigval(v):
    """float -> {s, m: base-10^8 limbs (least significant first) of floor(|v| * 10^5), e: exact?}, computed exactly"""
    from fractions import Fraction
    f = Fraction(float(v))
    m = abs(f) * 100000
    return {"s": -1 if f < 0 else 1, "m": limbs(m.numerator // m.denominator), "e": 1 if m.denominator == 1 else 0}


def bigtok(tk):
    """a written float token -> {s, m: limbs of |token| * 10^4}; a token with more than four decimals or not a number gets m = [-1]"""
    from fractions import Fraction
    try:
        q = Fraction(tk) * 10000
    except (ValueError, ZeroDivisionError):
        return {"s": 1, "m": [-1]}
    if q.denominator != 1:
        return {"s": 1, "m": [-1]}
    return {"s": -1 if tk.strip().startswith("-") else 1, "m": limbs(abs(int(q)))}


def exec_roundtrip_big(c):
    """C01 for magnitudes beyond 2*10^4 (up to the largest float32): tokens and read-back values as exact limb numbers"""
    from swcgeom.core import Tree
    t = mk_rt_tree(c)
    kw = dict(id_offset=c["off"], source=False)
    if c["kind"] == 2:
        p = os.path.join(scratch(), "neuron.swc")
        try:
            t.to_swc(p, **kw)
            text = open(p, encoding="utf-8").read()
            t2 = Tree.from_swc(p)
        finally:
            if os.path.exists(p):
                os.remove(p)
    else:
        text = t.to_swc(**kw)
        t2 = Tree.from_swc(io.StringIO(text) if c["kind"] == 0 else io.BytesIO(text.encode("utf-8")))
    rows = [ln.split() for ln in text.split("\n") if ln.strip() and not ln.startswith("#")]
    return {"ids": [int(r[0]) for r in rows], "pids": [int(r[6]) for r in rows],
            "tok": [[bigtok(r[j]) for j in (2, 3, 4, 5)] for r in rows],
            "bpids": [int(v) for v in t2.pid()], "btys": [int(v) for v in t2.type()],
            "back": [[bigval(col[i]) for col in (t2.x(), t2.y(), t2.z(), t2.r())] for i in range(len(t2.id()))]}


def execute(c):
    if c["op"] == "roundtrip_big":
        return exec_roundtrip_big(c)
    return exec_read(c) if c["op"] == "read" else exec_roundtrip(c)


class LogStream(io.StringIO):
    """a text stream that logs what the reader does with it: which lines it has been handed (however it asks for them: iteration, readline,
    readlines, read), when it was told that the stream is exhausted, and close()"""

    def __init__(self, text, events):
        super().__init__(text)
        self._events = events
        self._k = 0
        self._starts = [0]
        for i, ch in enumerate(text):
            if ch == "\n" and i + 1 < len(text):
                self._starts.append(i + 1)
        self._len = len(text)
        self._eof = False

    def _sync(self, exhausted):
        pos = self.tell()
        while self._k < len(self._starts) and self._starts[self._k] < pos:
            self._k += 1
            self._events.append(["next", self._k])
        if exhausted and not self._eof:
            self._eof = True
            self._events.append(["eof"])

    def __next__(self):
        try:
            line = super().__next__()
        except StopIteration:
            self._sync(True)
            raise
        self._sync(False)
        return line

    def readline(self, *a):
        line = super().readline(*a)
        self._sync(line == "")
        return line

    def readlines(self, *a):
        lines = super().readlines(*a)
        self._sync(self.tell() >= self._len)
        return lines

    def read(self, *a):
        data = super().read(*a)
        self._sync(self.tell() >= self._len and (not a or a[0] is None or a[0] < 0 or data == ""))
        return data

    def close(self):
        self._events.append(["close"])
        super().close()


def exec_line_events(c):
    """C02: the reader loop, observed line by line on a text stream"""
    from swcgeom.core import Tree
    from swcgeom.core.swc_utils import read_swc
    o = c["o"]
    text = render_file(c["file"], 0, 1, True)          # LF, final newline: one stream line per abstract line
    events = []
    src = LogStream(text, events)
    kw = dict(sort_nodes=(o["mode"] == 0), reset_index=(o["mode"] == 1))
    if o["nex"]:
        # the requested extra columns are "an iterable of names": a list, a tuple, a dict view, or something that can be walked only once
        kw["extra_cols"] = [lambda: ["e"], lambda: ("e",), lambda: iter(["e"]), lambda: (k for k in ["e"]), lambda: {"e": 0}.keys(), lambda: map(str, ["e"])][lib.vid(c) % 6]()
    try:
        with warnings.catch_warnings():
            warnings.simplefilter("ignore")
            if o["entry"] == 0:
                df, _ = read_swc(src, **kw)
                n = len(df)
            else:
                n = len(Tree.from_swc(src, **kw).id())
        events.append(["returned", int(n)])
    except Exception:          # noqa: BLE001 - the exception is the observation
        events.append(["raised"])
    return {"events": events}
