"""C07 — re-rooting and concatenation preserve structure and geometry (spec/Reroot.tla)."""
import numpy as np
from harness import lib

RULE = ("cases = redirect_tree on every topology up to the bound x every new root x sort on/off; cat_tree on every pair of topologies up to "
        "the bounds x every junction pair (a third of them with the second tree re-rooted beforehand without sorting, so that its root is not node 0) x translate on/off x coincident / non-coincident / nearly coincident placement (junctions 0.01 apart at coordinates of several thousand), concretised at several lattice units and "
        "offsets (up to 2e4 in the thorough tier); non-trivial = at least 3 nodes in total and the new root / junction is not the old root; "
        "distinct by (op, topologies, arguments)")
# the last quick placement is deliberately NOT exactly representable in float32 (translation leaves a rounding residue)
PLACEMENTS_QUICK = [(1.0, (0, 0, 0)), (0.25, (0, 0, 0)), (1.0, (300, -200, 150)), (0.1, (300.3, -200.7, 150.9))]
# co = 3 (junctions one lattice step apart) is concretised only here: a step of 0.01 at coordinates of several thousand on every axis
PLACEMENT_NEAR = (0.01, (3000.5, -2000.25, 4000.75))
PLACEMENTS_THOROUGH = PLACEMENTS_QUICK + [(0.5, (20000, -20000, 12345)), (2.0, (-1000, 1000, 0)), (0.37, (20000.5, -3000.1, 12345.7))]


def execute(c):
    from swcgeom.core import Tree, redirect_tree, cat_tree
    if c["op"] == "reverse_path":
        from swcgeom.transforms import PathReverser
        t = lib.mk_tree(c["P"], c["attr"])
        snap = lib.snapshot(t)
        path = [p for p in t.get_paths() if int(p.origin_id()[-1]) == c["i"]][0]
        tf = PathReverser()
        r = lib.outlives(tf, path, c, [p for p in lib.other_trees()[0].get_paths()][:1])
        mp, rpid, rattr = lib.project_tagged(r)
        return {"map": mp, "rpid": rpid, "rattr": rattr, "srcchanged": lib.changed(t, snap)}
    if c["op"] == "redirect":
        def warm(tt):
            redirect_tree(tt, len(tt) - 1, sort=True); redirect_tree(tt, 0, sort=False); tt.get_branches()
            tt.traverse(enter=lambda n, p: 0, leave=lambda n, cs: 0)
        if "shift" in c:
            t = lib.mk_tree(c["P"], c["attr"])          # a tree whose root is not its node 0
            if lib.vid(c) % 4 == 3:
                warm(t)
        else:
            t = lib.via_edit(c, c["P"], lambda Q: lib.mk_tree(Q, c["attr"]), warm)       # one case in four: the tree got its shape by an in-place edit after it was used
        snap = lib.snapshot(t)
        if lib.vid(c) % 5 == 2:
            lib.scribble(redirect_tree(t, c["i"], sort=bool(c["sort"])))            # an earlier result of the same call, overwritten in place by its owner
        r = redirect_tree(t, c["i"], sort=bool(c["sort"]))
        mp, rpid, rattr = lib.project_tagged(r)
        return {"map": mp, "rpid": rpid, "rattr": rattr, "srcchanged": lib.changed(t, snap), "idsok": int(lib.ids_ok(r))}
    unit, off1 = c.get("_place", (1.0, (0, 0, 0)))
    off = off1

    # when translation is requested the result does not depend on where tree 2 starts: move it far away (different float32 binade)
    far = (1234.56, -987.65, 5555.55) if (c["tr"] == 1 and lib.vid(c) % 2 == 0 and c["co"] != 3) else (0.0, 0.0, 0.0)

    def mk(P, pos, ty, rad, base):
        n = len(P)
        off = off1 if base == 1000 else tuple(a + b for a, b in zip(off1, far))
        return Tree(n, source=lib.SRC, id=np.arange(n, dtype=np.int32), pid=np.array(P, dtype=np.int32), type=np.array(ty, dtype=np.int32),
                    x=np.array([p[0] * unit + off[0] for p in pos], dtype=np.float32),
                    y=np.array([p[1] * unit + off[1] for p in pos], dtype=np.float32),
                    z=np.array([p[2] * unit + off[2] for p in pos], dtype=np.float32),
                    r=np.array([v * unit for v in rad], dtype=np.float32), tag=np.arange(n, dtype=np.int32) + base)
    t1 = mk(c["P1"], c["pos1"], c["ty1"], c["rad1"], 1000)
    t2 = mk(c["P2"], c["pos2"], c["ty2"], c["rad2"], 2000)
    if c.get("pre2", 0) > 0:
        t2 = redirect_tree(t2, c["pre2"], sort=False)      # a valid tree whose root is not its node 0 (the documented result of re-rooting without sorting)
    s1, s2 = lib.snapshot(t1), lib.snapshot(t2)
    if lib.vid(c) % 5 == 2:
        lib.scribble(cat_tree(t1, t2, c["i"], c["j"], translate=bool(c["tr"])))
    if lib.vid(c) % 7 == 3:
        import warnings as _w
        with _w.catch_warnings():
            _w.simplefilter("ignore")
            r = cat_tree(t1, t2, c["i"], c["j"], no_move=not bool(c["tr"]))       # the older spelling of the same option (still accepted)
    else:
        r = cat_tree(t1, t2, c["i"], c["j"], translate=bool(c["tr"]))
    ident = [[int(v) // 1000, int(v) % 1000] for v in r.ndata["tag"]]

    big = max(abs(o) for o in off) + max(abs(o) for o in far) + 100 * unit
    tol = max(1e-3, 8 * float(np.spacing(np.float32(big))) / unit)      # float32 rounding of the translated coordinates

    def q(v, o):
        w = (float(v) - o) / unit
        return int(round(w)) if abs(w - round(w)) < tol else -99999
    rpos = [[q(r.x()[k], off[0]), q(r.y()[k], off[1]), q(r.z()[k], off[2])] for k in range(len(ident))]
    return {"ident": ident, "rpid": [int(p) for p in r.pid()], "rty": [int(v) for v in r.type()],
            "rrad": [q(v, 0) for v in r.r()], "rpos": rpos, "src1changed": lib.changed(t1, s1), "src2changed": lib.changed(t2, s2),
            "idsok": int(lib.ids_ok(r))}


def keyfn(c, o, why):
    return "%s:%s" % (c["op"], why)


def nontrivial(c):
    if c["op"] in ("redirect", "reverse_path"):
        return len(c["P"]) >= 3 and c["i"] != 0
    return len(c["P1"]) + len(c["P2"]) >= 4 and c["j"] != 0


def run(ctx):
    ctx.mc("MC_RerootAlg", "MC_RerootAlg.%s.cfg" % ctx.tier, coverage=False)
    cases, path = ctx.gen("Gen_Reroot", "Gen_Reroot.%s.cfg" % ctx.tier)
    places = PLACEMENTS_QUICK if ctx.tier == "quick" else PLACEMENTS_THOROUGH
    for k, pl in enumerate(places):
        sub = [dict(c, _place=pl) for c in cases if ((c["op"] == "cat" and c["co"] != 3) or (c["op"] != "cat" and k == 0))]
        ctx.run_cases("enumerated-unit%g-off%d" % (pl[0], int(pl[1][0])), sub, path, execute, "Judge_Reroot", keyfn, nontrivial)
    near = [dict(c, _place=PLACEMENT_NEAR) for c in cases if c["op"] == "cat" and c["co"] == 3]
    ctx.run_cases("enumerated-near-junctions", near, path, execute, "Judge_Reroot", keyfn, nontrivial)
    # the same at the origin with a step of 0.001: the junctions are 1.7e-3 apart - far more than the merge tolerance, far less than any feature of a neuron
    tiny = [dict(c, _place=(0.001, (0.0, 0.0, 0.0))) for c in cases if c["op"] == "cat" and c["co"] == 3][:: (2 if ctx.tier == "quick" else 1)]
    ctx.run_cases("enumerated-tiny-gap", tiny, path, execute, "Judge_Reroot", keyfn, nontrivial)
    ctx.assumptions += ["cat_tree: the types of the second tree's old root and junction node may come back exchanged (re-rooting documents that exchange) or not",
                        "coordinates are lattice values times a unit exactly representable in float32; translation residue up to 1e-3 units is quantised away"]
    return ctx.finish(rule=RULE)


def replay(ctx, rec):
    c = rec["case"]
    p = ctx.write_cases("replay", [c])
    ctx.run_cases("replay", [c], p, execute, rec.get("judge", "Judge_Reroot"), keyfn)
    return ctx.finish(rule="replay of one recorded case")
