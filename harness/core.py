"""Shared pipeline: TLC generates -> the executor drives the real library -> TLC judges.

Python in this package only (a) concretises abstract cases into library calls, (b) projects real
objects back to abstract values (ints / strings / lists) and (c) book-keeps.  Every accept/reject
decision is taken by a TLA+ module evaluated by TLC (spec/Judge_*.tla, spec/Trace_*.tla, spec/MC_*.tla).
"""
import os, re, sys, json, time, hashlib, signal, traceback, random, warnings

VERIF = os.path.dirname(os.path.dirname(os.path.abspath(__file__)))
REPO = os.environ.get("VERIF_REPO", "/repo")
if REPO not in sys.path:
    sys.path.insert(0, REPO)
os.environ.setdefault("SWCGEOM_VERIF", "1")          # hook guard (MANIFEST.hooks.guard)

from harness import tlc  # noqa: E402


class Machinery(Exception):
    """The framework itself failed (exit 2); never reported as a violation."""


class Timeout(Exception):
    pass


def errctx(out, n=40):
    """the part of a TLC log that says what went wrong (the lines around the first "Error:"), else its tail"""
    lines = out.splitlines()
    for k, l in enumerate(lines):
        if "Error:" in l or "Exception" in l:
            return "\n".join(lines[max(0, k - 3):k + n])
    return "\n".join(lines[-n:])


def _alarm(signum, frame):
    raise Timeout()


def call_with_timeout(fn, seconds):
    old = signal.signal(signal.SIGALRM, _alarm)
    signal.setitimer(signal.ITIMER_REAL, seconds)
    try:
        return fn()
    finally:
        signal.setitimer(signal.ITIMER_REAL, 0)
        signal.signal(signal.SIGALRM, old)


def load_known():
    known, fixed = [], []
    p = os.path.join(VERIF, "KNOWN_FINDINGS.txt")
    if os.path.exists(p):
        for line in open(p):
            line = line.strip()
            if line.startswith("known:"):
                f = dict(x.split("=", 1) for x in line.split()[1:3])
                known.append({"property": f["property"], "key": f["key"], "text": line.split(None, 3)[3] if len(line.split(None, 3)) > 3 else ""})
            elif line.startswith("fixed:"):
                fixed.append(line)
    return known, fixed


class Ctx:
    def __init__(self, pid, tier="quick", seed=0):
        self.pid, self.tier, self.seed = pid, tier, seed
        self.t0 = time.time()
        # scratch files of this run (cases, observations); private to the process, so that two runs of the same check cannot disturb each other
        self.work = os.path.join(VERIF, ".work", "%s.%d" % (pid, os.getpid()))
        os.makedirs(self.work, exist_ok=True)
        import atexit, shutil
        if not os.environ.get("VERIF_KEEP_WORK"):
            atexit.register(shutil.rmtree, self.work, True)
        self.rng = random.Random(seed)
        self.states = 0
        self.transitions = 0
        self.tlc_runs = []           # [{module,cfg,states,distinct,wall,kind}]
        self.evaluations = 0         # cases executed against the implementation
        self.accepted = 0            # ... and accepted by the TLA+ judge
        self.nontrivial = set()      # hashes of distinct non-trivial cases
        self.samples = []
        self.failures = []           # [{key, why, case, obs, stage}]
        self.notes = {}
        self.exhaustive = True
        self.assumptions = []
        self.coverage_actions = {}

    # ---------------- TLC invocations ----------------
    def _account(self, r, module, cfg, kind):
        self.states += r.distinct
        self.transitions += r.generated
        self.tlc_runs.append({"module": module, "cfg": cfg, "kind": kind, "generated": r.generated,
                              "distinct": r.distinct, "depth": r.depth, "wall_s": round(r.wall, 2)})

    def mc(self, module, cfg=None, workers=16, timeout=1800, coverage=True, deadlock=True, env=None, expect_actions=None):
        """Exhaustive model check of a specification (property + algorithm layer).  Must pass."""
        cfg = cfg or module + ".cfg"
        r = tlc.run(module, cfg, workers=workers, timeout=timeout, coverage=coverage, deadlock=deadlock, env=env)
        if not r.ok or r.invariant_violated or r.property_violated or "Error:" in r.out:
            tail = "\n".join(r.out.splitlines()[-60:])
            raise Machinery("model checking %s/%s failed:\n%s" % (module, cfg, tail))
        self._account(r, module, cfg, "model-check")
        if coverage:
            cov = r.coverage()
            for a, (d, t) in cov.items():
                self.coverage_actions["%s.%s" % (module, a)] = t
            for a in (expect_actions or []):
                if cov.get(a, (0, 0))[1] == 0:
                    raise Machinery("vacuity: action %s of %s never taken" % (a, module))
        return r

    def mc_expect_violation(self, module, cfg, invariant, timeout=600, deadlock=True):
        """Sensitivity: a deliberately broken variant of the algorithm layer (a named deviation) MUST be rejected by TLC."""
        r = tlc.run(module, cfg, workers=4, timeout=timeout, deadlock=deadlock)
        if invariant not in r.invariant_violated and invariant not in r.action_violated and not (invariant == "PROPERTY" and r.property_violated):
            raise Machinery("sensitivity: %s/%s was expected to violate %s but did not" % (module, cfg, invariant))
        self.notes.setdefault("deviations_rejected_by_tlc", []).append("%s/%s violates %s" % (module, cfg, invariant))
        return r

    def gen(self, module, cfg=None, name="cases", env=None, timeout=1800, seed=None):
        """Run a generator module; returns the list of cases it wrote (ndjson)."""
        cfg = cfg or module + ".cfg"
        out = os.path.join(self.work, name + ".ndjson")
        if os.path.exists(out):
            os.remove(out)
        e = {"OUT": out}
        e.update(env or {})
        r = tlc.run(module, cfg, workers=1, timeout=timeout, deadlock=False, env=e, seed=seed)
        if "Error:" in r.out or not os.path.exists(out):
            raise Machinery("generator %s/%s failed:\n%s" % (module, cfg, "\n".join(r.out.splitlines()[-40:])))
        self._account(r, module, cfg, "generate")
        cases = [json.loads(l) for l in open(out) if l.strip()]
        return cases, out

    def judge(self, module, cases_path, obs_path, cfg=None, timeout=1500, env=None):
        """total verdict even when TLC cannot finish in time: the observations are then judged in chunks, and a chunk TLC cannot finish either
        is rejected as a whole (clause "judge-could-not-evaluate-in-time").  On the unchanged tree the first run finishes in seconds."""
        try:
            return self._judge(module, cases_path, obs_path, cfg, timeout, env)
        except tlc.TLCError:
            pass
        lines = [l for l in open(obs_path) if l.strip()]
        total, bad = 0, []
        size = 200
        for a in range(0, len(lines), size):
            part = obs_path + ".part"
            with open(part, "w") as f:
                f.writelines(lines[a:a + size])
            try:
                n, b = self._judge(module, cases_path, part, cfg, 120, env)
            except (tlc.TLCError, Machinery):
                n, b = len(lines[a:a + size]), [(json.loads(l)["cid"], "judge-could-not-evaluate-in-time") for l in lines[a:a + size]]
            total += n
            bad += b
        return total, bad

    def _judge(self, module, cases_path, obs_path, cfg=None, timeout=1500, env=None):
        """Hand observations to the TLA+ judge.  Returns (n_consumed, [(cid, why)]).

        The judges evaluate exact 32-bit integer arithmetic on what was observed; an observation so far out of range that TLC cannot
        evaluate the comparison (overflow, a value of the wrong shape) stops TLC at that observation.  That observation is then rejected
        with the clause "observation-cannot-be-evaluated" and the remaining ones are judged in a further run (total verdict)."""
        cfg = cfg or module + ".cfg"
        lines = [l for l in open(obs_path) if l.strip()]
        rejected = []
        cur = obs_path
        for attempt in range(40):
            e = {"CASES": cases_path, "OBS": cur}
            e.update(env or {})
            r = tlc.run(module, cfg, workers=1, timeout=timeout, deadlock=False, env=e)
            v = r.printed("VERDICT")
            if "Error:" not in r.out and len(v) == 1:
                break
            m = re.findall(r"/\\ (l|ci) = (\d+)", r.out)
            if "The error occurred when TLC was evaluating" not in r.out or not m or not lines:
                raise Machinery("judge %s failed:\n%s" % (module, errctx(r.out)))
            name, val = m[-1][0], int(m[-1][1])
            k = val if name == "l" else val - 1                      # 0-based index of the observation TLC was evaluating
            if not (0 <= k < len(lines)):
                raise Machinery("judge %s failed:\n%s" % (module, errctx(r.out)))
            rejected.append((json.loads(lines[k])["cid"], "observation-cannot-be-evaluated"))
            del lines[k]
            cur = obs_path + ".rest"
            with open(cur, "w") as f:
                f.writelines(lines)
            if not lines:
                self._account(r, module, cfg, "judge")
                return len(rejected), rejected
        else:
            raise Machinery("judge %s: more than 40 observations could not be evaluated" % module)
        self._account(r, module, cfg, "judge")
        val = tlc.parse_value("<<" + v[0] + ">>")
        n, bad = val[0], val[1]
        return n + len(rejected), rejected + [(b[0], b[1]) for b in bad]

    # ---------------- generator -> executor -> judge ----------------
    def run_cases(self, stage, cases, cases_path, execute, judge_module, keyfn, nontrivial=None, judge_cfg=None,
                  per_case_timeout=30, judge_env=None, sample_every=None):
        """Execute every case against the real library, judge all observations with TLC."""
        obs_path = os.path.join(self.work, stage + ".obs.ndjson")
        obs = []
        # a stage normally takes seconds to a few minutes; a library so broken that the cases crawl (or time out one after the other) must not keep the
        # check from reporting: after the budget the remaining cases of the stage are not executed (those executed are judged as usual)
        budget = float(os.environ.get("VERIF_STAGE_BUDGET", "900" if self.tier == "quick" else "7200"))
        t_stage, n_timeouts = time.time(), 0
        with open(obs_path, "w") as f, warnings.catch_warnings():
            warnings.simplefilter("ignore")
            for c in cases:
                if time.time() - t_stage > budget or n_timeouts >= 12:
                    self.notes.setdefault("stages_cut_short", []).append({"stage": stage, "executed": len(obs), "of": len(cases)})
                    cases = cases[:len(obs)]
                    break
                try:
                    o = call_with_timeout(lambda: execute(c), per_case_timeout)
                    o.setdefault("err", "")
                except Timeout:
                    o = {"err": "Timeout"}
                    n_timeouts += 1
                except Exception as ex:  # the library raised: an observation like any other
                    o = {"err": type(ex).__name__, "msg": str(ex)[:200]}
                    if os.environ.get("VERIF_DEBUG"):
                        traceback.print_exc()
                o["cid"] = c["cid"]
                obs.append(o)
                f.write(json.dumps(o) + "\n")
        n, bad = self.judge(judge_module, cases_path, obs_path, cfg=judge_cfg, env=judge_env)
        if n != len(obs):
            raise Machinery("judge consumed %d of %d observations" % (n, len(obs)))
        badset = {}
        for cid, why in bad:
            badset.setdefault(cid, why)
        by_cid = {c["cid"]: c for c in cases}
        self.evaluations += len(obs)
        self.accepted += len(obs) - len(badset)
        for c in cases:
            if nontrivial is None or nontrivial(c):
                d = {k: v for k, v in c.items() if k != "cid"}
                self.nontrivial.add(hashlib.sha1(json.dumps(d, sort_keys=True).encode()).hexdigest())
        step = sample_every or max(1, len(cases) // 3)
        for k in range(0, len(cases), step):
            if len(self.samples) < 12:
                self.samples.append({"stage": stage, "case": cases[k], "observed": obs[k]})
        for o in obs:
            if o["cid"] in badset:
                c = by_cid[o["cid"]]
                why = badset[o["cid"]]
                self.failures.append({"stage": stage, "key": keyfn(c, o, why), "why": why, "case": c, "obs": o,
                                      "judge": judge_module})
        return len(obs), len(badset)

    def write_cases(self, stage, cases):
        """Cases made by a free-running driver (not by TLC): same format, same judge."""
        p = os.path.join(self.work, stage + ".cases.ndjson")
        with open(p, "w") as f:
            for k, c in enumerate(cases):
                if "vid" not in c and "cid" in c:
                    c["vid"] = c["cid"]          # a replayed case keeps the number that selected its variants
                c["cid"] = k + 1
                f.write(json.dumps(c) + "\n")
        self.exhaustive = False
        return p

    # ---------------- verdict ----------------
    def finish(self, level="model_checking", rule="", extra=None):
        known, _ = load_known()
        mine = {k["key"]: k for k in known if k["property"] == self.pid}
        new, hit = [], {}
        for f in self.failures:
            if f["key"] in mine:
                hit.setdefault(f["key"], f)
            else:
                new.append(f)
        lines, rc = [], 0
        for k, f in hit.items():
            lines.append("KNOWN-FINDING: property=%s key=%s %s" % (self.pid, k, mine[k]["text"]))
        seen = set()
        for f in new:
            if f["key"] in seen:
                continue
            seen.add(f["key"])
            h = hashlib.sha1((self.pid + f["key"]).encode()).hexdigest()[:10]
            path = os.path.join(VERIF, "replays", "%s-%s.json" % (self.pid, h))
            with open(path, "w") as fh:
                json.dump({"property": self.pid, "key": f["key"], "why": f["why"], "stage": f["stage"], "judge": f["judge"],
                           "case": f["case"], "observed": f["obs"], "tier": self.tier, "seed": self.seed}, fh, indent=1)
            lines.append("VIOLATION property=%s replay=%s" % (self.pid, path))
            lines.append("  key=%s clause=%s case=%s" % (f["key"], f["why"], json.dumps(f["case"])[:300]))
            rc = 1
        def brief(v, limit=1500):
            """evidence stays small: a sample that is large as JSON (a tree of 70 000 nodes) is recorded by its size and beginning"""
            js = json.dumps(v)
            return v if len(js) <= limit else {"abridged": True, "json_chars": len(js), "begins": js[:400]}
        self.samples = [{k: brief(v) for k, v in smp.items()} for smp in self.samples]
        cov = {
            "states": max(self.states, 1), "transitions": max(self.transitions, 1),
            "traces_validated_against_impl": self.accepted,
            "evaluations": self.evaluations, "distinct_nontrivial": len(self.nontrivial),
            "rule": rule, "samples": self.samples[:12] or [{"note": "no cases"}],
            "exhaustive": bool(self.exhaustive), "tlc_runs": self.tlc_runs,
            "action_coverage": self.coverage_actions, "violating_cases": len(self.failures),
            "known_findings_hit": sorted(hit.keys()), "notes": self.notes,
            "repo": REPO,
        }
        cov.update(extra or {})
        ev = {"property_id": self.pid, "tier": self.tier, "seed": self.seed, "level": level, "coverage": cov,
              "assumptions": self.assumptions, "wall_s": round(time.time() - self.t0, 2), "violations": len(seen)}
        # evidence/<id>.json describes runs against /repo itself; a run against a scratch copy (seeded change) leaves it alone
        evdir = os.path.join(VERIF, "evidence") if os.path.realpath(REPO) == "/repo" else self.work
        os.makedirs(evdir, exist_ok=True)
        with open(os.path.join(evdir, self.pid + ".json"), "w") as fh:
            json.dump(ev, fh, indent=1)
        if rc == 0 and self.notes.get("stages_cut_short"):
            raise Machinery("a stage ran out of its time budget before all cases were executed, and no violation was found: %s" % self.notes["stages_cut_short"])
        for l in lines:
            print(l)
        print("%s tier=%s: %d cases executed, %d accepted by the TLA+ judge, %d TLC states, %d violations (%d new keys), %.1fs"
              % (self.pid, self.tier, self.evaluations, self.accepted, self.states, len(self.failures), len(seen), time.time() - self.t0))
        return rc
