"""Regenerates /verif/MANIFEST.json from the table below (python -m harness.manifest)."""
import json, os
VERIF = os.path.dirname(os.path.dirname(os.path.abspath(__file__)))

ALL = ["C%02d" % i for i in range(1, 21)]
TRUST = ("TLC 1.8 evaluates the TLA+ judge; harness/lib.py projections (real object -> ints) and the concretisation "
         "of abstract cases are trusted; bounds as stated in the evidence file")

CHECKS = {
 "C20": dict(
    text="ImageStack.tla models a stack as a function on index tuples whose values are index codes, saving as an axis permutation plus an axes tag, loading "
         "as the inverse permutation by the tag, and the unsigned / float rescaling as exact rationals; TLC proves Load(Save(a)) = a for every shape and "
         "shows that a wrong axes tag is visible exactly on asymmetric shapes. Every shape x channel mode x array dtype x save dtype x load dtype is then "
         "written and read back through the real save_tiff / read_imgs (a sample through NPY and NRRD) and every voxel judged by TLC. For rasterisation the "
         "module states the box, the voxel-centre grid (count per axis = centres strictly below the upper bound, for any rational resolution) and exact "
         "integer membership of a centre in the capsule around each parent-child pair; TLC judges the shape and every voxel of ToImageStack on lattice trees "
         "(equal end radii: decided up to centres exactly on a surface; unequal: bracketed), and the executor checks transform_and_save -> read_imgs",
    design="4/C20", technique="TLA+ specification of axis/dtype bookkeeping (round trip proved by TLC over shapes) and of exact voxel membership + TLC-generated io cases and lattice scenes replayed into the code, TLC-judged voxel by voxel"),
 "C16": dict(
    text="Resample.tla states resampling in exact rational arithmetic on trees whose segments are axis-parallel with integer lengths: the number of points "
         "of a branch (ceil(L / spacing) + 1), each point as the rational point of the original polyline at its arc length (equal steps, or fixed steps with a "
         "shorter last one), radii interpolated linearly along arc length, and the resampled tree as one chain per original branch between the unchanged "
         "critical nodes. TLC generates every tree within the bounds with spacings, point counts, windows and root types; the executor runs IsometricResampler, "
         "the assembler on the unresampled branch tree, the branch resamplers and the smoothers, and reports raw results; TLC decomposes the observed tree "
         "into chains itself and matches them against the specified chains, checks total length, root type, and for smoothing exactly what the statement fixes",
    design="4/C16", technique="TLA+ exact-rational specification of resampling + TLC exhaustive small-scope generation, replay into the code, TLC-judged raw results"),
 "C10": dict(
    text="Morph.tla defines every morphometric directly from the parent relation and integer lattice positions (segment lengths are integers; straight-line "
         "distances, tortuosity / contraction and all angles in exact squared or dot-product form): tree / branch / path lengths, length = sum of branch lengths, "
         "tortuosity, radial distances, the two branch-order conventions, counts, Sholl counts at a radius (min <= rho < max over segment end radii, exact ties "
         "included) and on step grids, and the L-Measure quantities (stems, bifurcations, branches, tips, path and Euclidean distance, branch order, terminal "
         "degree, partition asymmetry, fragmentation, contraction, local / remote amplitude, tilt and torque). TLC generates every lattice tree within the bounds "
         "and judges what the feature classes, the extractor front end, Sholl, LMeasure and the population front end (zero-padded rows) report for each",
    design="4/C10", technique="TLA+ declarative specification of the morphometrics on lattice trees + TLC exhaustive small-scope generation, replay into the code, TLC-judged observations"),
 "C11": dict(
    text="The specification of C10 is a function of the parent relation and inter-node distances only, i.e. pose- and numbering-free by construction. Every "
         "generated lattice tree is concretised after a lattice or generic rotation + translation, a renumbering (root first), a uniform scaling (2, 0.37) or a "
         "combination, all features are asked again and judged by the same TLA+ module with lengths divided by the scale factor; volumes at the deterministic "
         "accuracy levels are compared with the untransformed volume times scale^3; a second pass derives the moved / scaled tree from an already measured "
         "tree object through the library's own transforms, so that state cached on the original cannot leak into the copy unnoticed",
    design="4/C11", technique="metamorphic replay judged by the pose-free TLA+ specification of C10 (TLC decides every comparison)"),
 "C14": dict(
    text="VolTree.tla states, in exact rationals, the union volume of a collinear tree as the integral of the maximal cross-section: per compartment the three "
         "profiles (frustum, ball A, ball B) cross at rational points, and on every piece the profile largest at the midpoint is integrated (TSeg); under the "
         "premise every ball stays within its adjacent compartments, so the union is the sum over compartments plus half a ball at each free end. TLC proves "
         "that what the per-node sweep contributes per compartment at accuracy >= 3 (CSeg: half balls + frustum - both ball-frustum overlaps) equals TSeg for "
         "every compartment of the grid, tangent, overlapping and disjoint neighbours alike. Every collinear tree within the bounds is evaluated by the real "
         "get_volume at levels 1-4 (5 and 8 where the Monte-Carlo pair term is exactly zero) and through the feature extractor, at 7 placements and 3 units, "
         "and random trees of any shape at levels 1 and 2; TLC judges the ratio to the exact parts",
    design="4/C14", technique="TLA+ exact-rational specification of the union integral vs the inclusion-exclusion sweep (per-compartment identity checked by TLC); TLC-generated trees replayed into the code, TLC-judged",
    note="TLC 1.8 evaluates the TLA+ judge; 32-bit integers limit the exactly decided compartments to radii 1..3 and spacing <= 4 units (other sizes via the length unit); "
         "the executor sums the exact per-part rationals in floating point and forms the ratio observed/expected; levels with a non-zero Monte-Carlo term are not claimed"),
 "C13": dict(
    text="VolPrim.tla states every primitive volume twice in exact rational arithmetic (units of pi): as the defining integral of the solid of revolution "
         "(Truth) and as the formula / five-way case analysis the code uses (Code: cap, frustum, lens with disjoint / nested cases, sphere-frustum "
         "intersection with the point where the cone leaves the ball). TLC proves Code = Truth on the whole integer grid, that every branch of the case "
         "analysis is reached and that the boundaries between branches (h = r, equal radii, cone leaving exactly at the far end, tangent and nested balls) "
         "are on the grid. Every grid point is then evaluated by the real library at 7 placements (axis, oblique, generic directions; frustum given from "
         "either end; offsets) and 3 length units and compared with the integral by TLC (relative 5e-8 / 5e-6)",
    design="4/C13", technique="TLA+ exact-rational specification: closed forms vs defining integrals checked by TLC on a grid covering every case region; grid replayed into the code, TLC-judged"),
 "C12": dict(
    text="Affine.tla defines translation, scaling, axis rotations, Rodrigues rotation and conjugation about a centre as 4x4 matrices over exact rationals "
         "(angles with rational sine and cosine, rational unit axes). TLC proves over the whole parameter grid, in exact arithmetic, that the chosen centre "
         "stays fixed, rotations preserve all distances, the sense is right-handed, Rodrigues agrees with the axis rotations and fixes its axis, scaling "
         "multiplies centre-relative offsets per axis, and a transform followed by its inverse is the identity. The generator emits every operation x centre "
         "mode x tree set (incl. the same transform object applied to two trees, +-2pi windings, class and classmethod entry points, inverse pairs, matrix "
         "builders); the executor applies them to trees whose root is away from the origin and TLC compares every coordinate / matrix entry with the exact "
         "rational value, and checks that parents, types, radii and the input tree are untouched",
    design="4/C12", technique="TLA+ exact-rational specification of the affine maps (algebraic statements checked by TLC over the grid) + TLC-generated cases replayed into the code, TLC-judged against exact values"),
 "C17": dict(
    text="Mst.tla states the construction as a greedy machine (state: connected set, parents, path lengths, child counts; one action per attachment, enabled for "
         "the admissible pairs of minimal cost q*distance + p*path length) and the statements about the result (spanning, rooted at the soma / first point, "
         "branching limit with root exemption, minimum spanning tree by the cycle property). MC_Mst runs it on exact instances (collinear points, 3-4-5 "
         "rectangles) for every balancing factor, limit and exemption, carries the code's mask matrix alongside and checks that the unmasked entries are "
         "exactly the admissible pairs, that every step is a greedy step, that the loop completes, and that without factor and limit the total length is the "
         "minimum over all spanning trees (by enumeration); the named deviation (path length broadcast over the wrong axis) is rejected. Trees built by the "
         "real transforms on every small lattice point set and on random clouds (float64 / float32, far from the origin, up to 240 points) are validated by "
         "Trace_Mst: TLC re-runs the machine and requires, at every attachment, a cost-minimal admissible pair among the observed edges",
    design="4/C17", technique="TLA+ greedy state machine + mask-bookkeeping algorithm layer model-checked on exact instances; trace validation of observed trees by re-running the machine in TLC (one state per attachment)"),
 "C15": dict(
    text="Asc.tla has a producer (a grammar-driven state machine emitting one document token by token while a reference interpreter - a stack of split "
         "parents and the last point - maintains the table the document denotes) and a consumer (the recursive-descent parser transcribed with its flag / "
         "current / root and bracket consumption, followed by the pre-order walk). TLC checks on every document the producer can emit within the bounds "
         "that the parser yields exactly the reference table (Faithful), rejects every proper prefix (RejectsTruncated) and every single-point corruption "
         "(RejectsCorrupt), and rejects two named deviations of the parser (split bracket not consumed; leading empty alternative not recognised). The same "
         "producer generates the documents that are rendered (whitespace, number spellings, markers) and converted by the real library through from_stream / "
         "convert / __call__, complete, truncated at every token and corrupted at every point; outcomes are judged by TLC against the reference interpreter; "
         "scaled documents (5e3-5e4 points per branch, 50-1200 nested splits) are judged against closed-form tables",
    design="4/C15", technique="TLA+ producer/consumer specification (grammar machine + transcribed parser) model-checked exhaustively; TLC-generated documents, truncations and corruptions replayed into the code; TLC-judged outcomes"),
 "C19": dict(
    text="Population.tla models the containers (LazyLoadingTrees, NestTrees, ChainTrees, Population, Populations) as a heap of objects with per-container "
         "cache slots, per-file read counters and the sets of requested / probe-eligible files; every operation is an action. TLC explores every history up "
         "to the step bound over three directories and checks in every state that each file was read at most once, only on demand (or by the documented "
         "probe), that every key of every container resolves to the file its flattened contents list there (chains = concatenation in order, slices by "
         "Python semantics), and - separately - that the code's binary search over prefix sums picks the designated member for every vector of member sizes "
         "including empty ones. The same exploration (plus simulation and a random driver over other layouts) generates histories; the executor performs "
         "them on real objects in a scratch directory, counting read-opens of every file with an audit hook, and Trace_Population validates result and reads "
         "after every step",
    design="4/C19", technique="TLA+ state machine of the containers explored exhaustively by TLC; generated histories replayed into the code; TLC trace validation of results and per-file read counts after every step"),
 "C18": dict(
    text="Dsu.tla specifies the disjoint-set structure twice: abstractly (the partition, merged by union) and concretely (parent / rank with recursive path "
         "compression and union by rank, as the code does it); TLC explores every history of union / find / same on 4 elements with the union history tracked "
         "(joined exactly when the performed unions connect them) and on 6-7 elements against the abstract partition (finite state space, no depth bound), and "
         "rejects the named deviation (linking elements instead of roots). Checkers.tla states connectivity, cyclicity, parents-precede and at-most-two-children "
         "declaratively for every parent table; MC_Checkers transcribes the pointer-jumping loop of get_dsu and has_cyclic over the concrete structure and TLC "
         "checks both terminate with the declarative answer on every table; the 'nearest' repair algorithm is checked at specification level on every forest "
         "(deviation without label merging rejected). Conformance: every generated history is replayed on a real DisjointSetUnion and validated event by event "
         "(Trace_Dsu, representatives read back after every call), traces of the structure inside has_cyclic are recorded and validated, every table is put to the "
         "four checkers under a timeout and every forest through read_swc(fix_roots=...) and the normaliser functions, judged by TLC",
    design="4/C18", technique="TLA+ state machine of the disjoint-set structure explored exhaustively + trace validation of real call histories; declarative checker/repair specs judged by TLC on every table/forest; algorithm layers (pointer jumping, has_cyclic, nearest repair) model-checked incl. termination"),
 "C01": dict(
    text="SwcIO.tla specifies the writer (source header, comment normalisation, column header, one row per node with shifted ids, the root's -1 kept, "
         "floats printed as the value rounded half-even to four decimals) and the reader; TLC checks at specification level that reading the writer's "
         "output returns the rounded tree and the comments (ASSUME over every generated case) and generates every topology x comment list with offsets, "
         "header modes and source kinds; each case is written and read back twice by the real library; TLC judges the written text line by line (by the "
         "value each token denotes) against the writer specification and the read-back tree and comments against the original; free-running cases carry "
         "arbitrary float32 values with their exact decimal expansion, chains of thousands of nodes and high-degree stars",
    design="4/C01", technique="TLA+ writer/reader specification (SwcIO.tla) + TLC exhaustive small-scope generation, replay into the code, TLC-judged observations of the written text and the read-back tree"),
 "C02": dict(
    text="SwcIO.tla models the reader as a state machine with one action per loop iteration (data row / comment / blank / invalid row / decode error), the "
         "context manager's exit as its own step, then framing and sort/reset; TLC checks NoSilentTruncation, Loud and termination on every file over a line "
         "alphabet with every option set, checks that the loop-as-function used for judging is what the machine computes, and rejects the named deviation "
         "(an exit that swallows the exception); TLC generates every small table with non-data lines of every kind (16 malformed kinds, undecodable byte) at "
         "every position; each file is rendered (spellings, whitespace, CRLF, padding past the first read buffer; text / bytes / path; read_swc / Tree.from_swc) "
         "and the observed outcome (rows, comments, warning, or exception) is judged by TLC against the specification's outcome; in addition the reader is "
         "handed a logging text stream and the recorded events (every line hand-out, end of stream, close, outcome) are replayed against the state machine "
         "by Trace_SwcIO: lines are consumed one by one, nothing is read past a bad line, the stream is closed before the call ends, the outcome is the machine's",
    design="4/C02", technique="TLA+ reader state machine (SwcIO.tla) model-checked exhaustively (deviation rejected) + TLC-generated files replayed into the code + TLC-judged outcomes + trace validation of the recorded line events"),
 "C06": dict(
    text="TLC enumerates every well-formed topology (all numberings) up to the bound with every admissible argument; each case is replayed "
         "into get_subtree / Node.subtree / to_subtree / cut_tree / CutByType / CutByFurcationOrder / CutShortTipBranch and the observed "
         "(mapping, parents, attributes) is judged by the declarative survivor sets of spec/Subtree.tla; the code's mark-propagate-renumber "
         "algorithm is model-checked against the same sets (MC_SubtreeAlg, termination included); larger random trees are judged by the same module",
    design="4/C06", technique="TLA+ spec (Subtree.tla) + TLC exhaustive small-scope generation, replay into the code, TLC-judged observations; algorithm layer model-checked"),
 "C08": dict(
    text="Decomp.tla defines branches, paths, tips, furcations and the branch tree declaratively; TLC checks on every topology up to the bound that they "
         "satisfy the decomposition statement (edge partition, branch ends, one path per tip) and that the code's post-order accumulator with stem "
         "closure (MC_Decomp) computes exactly them, and that the accumulator without stem closure is rejected; every enumerated topology is replayed "
         "into get_branches/get_paths/get_tips/get_furcations/Node.branch/BranchTree.from_tree/ToBranchTree/ToLongestPath and judged by TLC",
    design="4/C08", technique="TLA+ spec (Decomp.tla) + TLC exhaustive small-scope generation, replay into the code, TLC-judged observations; algorithm layer model-checked"),
 "C05": dict(
    text="SortNodes.tla states the relabelling relation (bijection preserving parent relation and every per-node column, parents first, root 0); "
         "TLC model-checks the code's stack-based renumbering loop against it for every single-rooted table over several id pools and row orders "
         "(termination included) and judges the observed output of sort_tree, sort_nodes/sort_nodes_, read_swc(sort_nodes=True) and is_sorted on every "
         "enumerated table, including sorting the result a second time",
    design="4/C05", technique="TLA+ spec (SortNodes.tla) + TLC exhaustive small-scope generation, replay into the code, TLC-judged observations; algorithm layer model-checked"),
 "C07": dict(
    text="Reroot.tla states re-rooting and concatenation keyed by node identity (node set, exchanged root types, undirected edge set, unique root, "
         "translated copy of the second tree, merged coincident junction, first tree unchanged as a rooted subgraph); TLC model-checks the code's path "
         "reversal on every topology and new root, and judges the observed redirect_tree / cat_tree results for every enumerated pair of trees, junction "
         "pair, translate mode and placement, concretised at lattice and non-representable float32 placements",
    design="4/C07", technique="TLA+ spec (Reroot.tla) + TLC exhaustive small-scope generation, replay into the code, TLC-judged observations; algorithm layer model-checked"),
 "C04": dict(
    text="StructRec.tla is an event-level specification of structural recursion (enter once per subtree node after the parent with the parent's value; "
         "leave once after all children with exactly their values; return the start node's value; nothing outside the subtree); MC_Traverse transcribes the "
         "explicit-stack DFS and TLC checks every step it takes is allowed by StructRec and that it terminates, for every topology, start node and callback mode; "
         "traces recorded from swc_utils.traverse / Tree.traverse / Node.traverse are validated event by event by TLC (Trace_StructRec), and chains of 2e4-1e5 "
         "nodes by the O(1)-state chain specialisation (Trace_ChainRec, justified by MC_ChainRec)",
    design="4/C04", technique="TLA+ event spec (StructRec) + PlusCal-style algorithm model checked against it + trace validation of recorded implementation traces by TLC"),
 "C03": dict(
    text="TreeOps.tla states the structural contract of every tree-to-tree operation (well-formed, sorted where documented, the unsorted re-rooting exception) "
         "and the heap statements Pure / NoSharing / Isolation; MC_TreeHeap is a design-level model of the storage discipline (fresh cells from copy / fancy-index / "
         "concatenate, in-place writes through node handles) in which TLC proves the heap statements and rejects the named deviations (aliased column, in-place "
         "operation); TLC generates every 2-step pipeline over 49 operation instances plus randomised 6-10 step pipelines, the executor runs them on the real "
         "library with a node-handle write after every step, and Trace_TreeOps validates the projected heap (topologies, content digests, numpy.shares_memory classes) after every step",
    design="4/C03", technique="TLA+ heap specification + TLC-generated operation pipelines replayed into the code + TLC trace validation of the observed heap after every step"),
 "C09": dict(
    text="Views.tla models trees, node/slice/path/branch/segment views, detached copies and tree copies as a state machine whose actions are values; what a view "
         "reports is defined as the owner's current columns at its indices. TLC explores every history of view/write/copy/detach operations up to the bound "
         "(design properties: detached copies frozen, writes local to the owner) and the same exploration generates the histories; the executor performs each "
         "history on real objects, reads back every live tree and view completely after every step (values, ids, negative indexing, slices, segments, adjacency) "
         "and Trace_Views compares with the specification state step by step",
    design="4/C09", technique="TLA+ state machine (Views.tla) explored exhaustively by TLC; generated histories replayed into the code; TLC trace validation of full read-backs after every step"),
}

NA_REASON = {}

# what later sessions added to each check (appended to the level text; DESIGN.md section 10)
ADD = {
 "C01": "Magnitudes from 3*10^4 up to the largest float32 are judged with base-10^8 limb arithmetic in the specification (Round4Big, ASSUMEd equal to Round4 where both apply), id offsets up to 2*10^9. Every file source is written to one and the same path (a reader that remembers a path's earlier content shows).",
 "C02": "The reader is also handed a logging text stream; Trace_SwcIO replays the recorded events at the level the property fixes (position, doomed after a bad line, outcome): no return after a bad line or before every line was handed out, no error on a valid file. Byte / path sources also with encoding='detect' and bare-CR line ends; extra_cols as one-shot iterables; the lazy read of a population over the file's directory.",
 "C03": "One operation in four is carried out twice with the first result overwritten in place in between (results must not alias internal caches). Every single operation instance on every 5-node (thorough: 6-node) topology under every numbering; random pipelines start from trees numbered children-first. ToBranchTree among the operations; the heap projection follows the branches a branch tree remembers.",
 "C04": "Histories (traverse, re-parent a node in place through its handle, traverse again) are generated from SwcBase.Reparent for every topology and admissible edit; callbacks that return None; trees of 7*10^4-1.5*10^5 nodes under interleaved numberings are validated by the folded judge Trace_BigRec, which MC_BigRec checks against StructRec on every small tree. A comb of 24 000 nodes (a twig at every spine node); the start handle obtained with a negative key. Half of the table-entry cases hold a second tree after the first (a forest); variant choices by a hash of the case number.",
 "C05": "Columns are also held as float64 with values no float32 represents, the extra column has missing (NaN) entries, an earlier result of the same call is overwritten in place, and the tree is sorted before and after an in-place re-parenting. The second sort alternates between the copying and the in-place form.",
 "C06": "One case in four reaches its tree by an in-place re-parenting after the tree was queried; transform objects are reused after other trees / after the same tree object with other coordinates; an earlier result of the same call is overwritten in place. The removals of to_subtree are handed over as list, tuple, set, array, dict view, generator, iterator and chain (one-shot iterables); results are read after the transform object went on to other trees. Tree.get_neurites / get_dendrites (Subtree.Neurites, Dendrites); a failed call (raising user callback) before the judged call of CutShortTipBranch. Every tree carries a 64-bit integer attribute near 1.7*10^18.",
 "C07": "Junctions 0.01 apart at coordinates of several thousand; a second tree that was re-rooted beforehand without sorting (its root is not its node 0); histories and overwritten earlier results as in C06. Re-rooting of trees whose root is not their node 0 (every rotation of the numbering; the specification takes the old root from the table). PathReverser on every tip of every topology under every numbering (Reroot.ReverseWhy; this found the IndexError defect repaired in /repo). A seventh of the concatenations use the legacy keyword no_move.",
 "C08": "ToLongestPath with zero-length segments; histories (query everything, re-parent in place, query again) for every topology and admissible edit; transform objects reused. Results are read after the transform object went on to other trees.",
 "C09": "Trees whose columns are strided views; containers of segments whose members have different owners (detached segments, segments of several branches). The extra column ('level', float64 or int32) is written through node handles like x and type (Views.WCols). What node handles report about parent / children / a column by name in every step; handles kept from iteration; a last stage re-parents a node through its handle and asks segments, adjacency and neighbours again. A quarter of the histories run on a tree with user-chosen column names.",
 "C10": "Paths and branches that return to their starting point; a history stage (measure, re-parent and move a node in place, measure again); one population extractor asked for Sholl counts at different radii in turn. The tree behind a stem of 2*10^5 lattice units (Morph.StemP: short branches far along a neurite); atlas coordinates.",
 "C11": "A further pass scales by 10^-6 and by 3*10^4 (this found the unit dependence of the sphere-frustum overlap, repaired in /repo). A 1/32-scaled tree at (-20000, 30000, 25000) (segments shorter than 1e-5 of the coordinates).",
 "C12": "Negative coordinate axes and an axis in a coordinate plane (Rod(-n, a) = Rod(n, -a) ASSUMEd), turns of 0.0044 rad next to 0, pi/2 and pi, scalings with a zero factor. All trees name the same source file; results of one transform object on several trees are read after the last call. User-chosen column names (SWCNames); quarter turns handed over a millionth short. Two steps in a row (Transforms(first, second) and one after the other): a step that moves the root, then a step about the root (Gen_Affine.PipeCases).",
 "C13": "Every case again at atlas-sized coordinates (10^4-10^5) and at the units 10^-6 and 2.5*10^4; half of the sphere-frustum cases on a frustum object that was asked about other, short-lived spheres before. Centres are handed over in buffers that the caller overwrites once the solids are built; a sphere object is first asked about short-lived frusta.",
 "C14": "Levels 3-4 again on an exact float32 lattice at 2^20 / 2^21 from the origin and at the units 10^-6 / 2.5*10^4; mirror-symmetric two-armed roots at levels 5, 6, 8, 9; a renumbered variant; one extractor object asked at several accuracies (list and dict forms). A history stage: the same tree object is measured with one node edited in place (radius, position), restored in place, and measured again. One-node trees at levels 1-5.",
 "C15": "Every document again with all points coincident / two alternating points (DupStream); comments placed across the 4 KiB / 8 KiB / 64 KiB marks of the character stream. Every document saved under one and the same path.",
 "C16": "All numberings (children may precede parents); coincident sibling tips with branch count and pair-based connectivity; resampler / smoother objects reused after other trees and after the same tree object with other coordinates. Resampler / smoother results are read after the same object went on to other branches and trees. Placements: atlas coordinates and a unit of 10.1 with the origin inside the tree. A BranchTree object handed to the resampler (branch trees of trees with 3-4-5 bends).",
 "C17": "Transform objects reused after tiny clouds; limits 12 and 15 with strong balancing; a soma a fraction of a unit from a cloud point at atlas-sized coordinates. Coincident points (a row recorded twice; the soma given again as a row of the cloud). Integer clouds with a soma between voxel centres; clouds given in metres. The deprecated alias k_furcations in a quarter of the PointsToMST cases.",
 "C18": "A warning of any text or category counts as the warning the statement asks for. Rings and lassos of 5-7 rows in every row order; rows listed in other orders; a repairing read of a file followed by a plain read of the same file. A quarter of the tables come in a frame whose index labels are not 0..n-1.",
 "C19": "Dot-prefixed folder and file names; three populations of different sizes chained and every ordered pair of indices asked in turn. Trees of different sizes; populations of hundreds of files walked twice; flat directories sharing most names, filled in different sequences on a memory file system. Roots named with and without a trailing separator.",
 "C20": "Saving and rasterising leave their argument untouched, repeated export, ToImageStack objects reused (other trees / the same tree object with other coordinates), a renumbered variant of every scene. Saturated voxels (MAX - k) and the top of the unit interval, half-precision files and loads (this found the narrowing-before-rescaling defect of read_imgs, repaired in /repo). Block rendering with ranges = (lo, hi) (blocks entered only by the thick end of a cone); stacks of hundreds of frames. Half of the io cases overwrite the array they were given in place and read the file again.",
}


def build():
    checks = []
    for pid in ALL:
        if pid not in CHECKS:
            continue
        c = CHECKS[pid]
        checks.append({
            "property_id": pid,
            "quick_cmd": "./bin/check %s --tier quick" % pid,
            "thorough_cmd": "./bin/check %s --tier thorough" % pid,
            "evidence_file": "evidence/%s.json" % pid,
            "replay_cmd_template": "./bin/check %s --replay {path}" % pid,
            "engine": "tlc",
            "level_claimed": {"category": "model_checking", "text": c["text"] + (" " + ADD[pid] if pid in ADD else ""), "design_ref": "DESIGN.md section " + c["design"]},
            "level_note": c.get("note", TRUST),
            "technique": c["technique"],
        })
    na = [{"property_id": p, "reason": NA_REASON.get(p, "no check committed yet for this property (specification under construction); nothing is claimed")}
          for p in ALL if p not in CHECKS]
    m = {
        "version": 1,
        "setup_cmd": "./bin/setup",
        "hooks": {"guard": "SWCGEOM_VERIF", "enable": "checks set SWCGEOM_VERIF=1 and import swcgeom from /repo's working tree (no build step; no source hooks are needed)",
                  "baseline_off_cmd": "cd /repo && env -u SWCGEOM_VERIF /venv/bin/python -m pytest -ra -q -p no:cacheprovider --timeout=900 --continue-on-collection-errors",
                  "source_commits": [], "add_only": True},
        "engines": [{"name": "tlc", "path": "/usr/local/bin/tlc", "serves_properties": sorted(CHECKS), "kind_free_text": "TLC 1.8 explicit-state model checker: exhaustive checks of spec/MC_*.tla, case generation from spec/Gen_*.tla, judging of implementation observations by spec/Judge_*.tla / Trace_*.tla"}],
        "checks": checks,
        "not_applicable": na,
        "notes": "All decisions are taken by TLA+ modules under spec/ evaluated by TLC; Python only concretises and projects. See DESIGN.md. Beyond the listed properties: "
                 "./bin/check X01 (Pipeline.tla: Transforms is sequential composition) ./bin/check X02 (Folder.tla: image-stack folders, Welford statistics) and ./bin/check X03 (AssembleProp.tla / Assemble.tla: LinesToTree assembles poly-lines into one tree); seeded changes under "
                 "seeded/ (bin/seedrun), property-preserving changes under benign/ (bin/benignrun).",
    }
    with open(os.path.join(VERIF, "MANIFEST.json"), "w") as f:
        json.dump(m, f, indent=1)
    return m


if __name__ == "__main__":
    m = build()
    print("MANIFEST.json: %d checks, %d not_applicable" % (len(m["checks"]), len(m["not_applicable"])))
