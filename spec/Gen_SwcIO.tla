----------------------------- MODULE Gen_SwcIO -----------------------------
(***************************************************************************)
(* Case generator for C02 (reading) and C01 (write -> read round trip).    *)
(* Reading: every table (single-rooted with the root row anywhere, and     *)
(* forests) over the id sequences, rendered as data rows with every float      *)
(* spelling, with up to MaxBad non-data lines (comment / header / blank /  *)
(* every malformed kind / undecodable) inserted at every position; the     *)
(* read options, source kind, entry point, newline convention and the 8 KiB*)
(* padding are assigned round-robin (all 576 combinations occur).          *)
(***************************************************************************)
EXTENDS SwcIO, SequencesExt, Json, IOUtils
CONSTANTS MaxN, Bad2N, IdSeqs, RTMaxN, RTComMax

IdSeqsQuick    == {<<0>>, <<7>>, <<0, 1>>, <<2, 1>>, <<9, 5>>, <<0, 1, 2>>, <<1, 2, 3>>, <<5, 11, 2>>, <<2, 0, 1>>}
IdSeqsThorough == {<<0>>, <<7>>, <<0, 1>>, <<1, 0>>, <<2, 1>>, <<1, 2>>, <<9, 5>>, <<5, 9>>, <<0, 1, 2>>, <<0, 2, 1>>, <<1, 0, 2>>, <<1, 2, 0>>, <<2, 0, 1>>, <<2, 1, 0>>,
                   <<1, 2, 3>>, <<3, 2, 1>>, <<5, 11, 2>>, <<2, 5, 11>>, <<11, 2, 5>>}
InjSeqs(S, n) == { s \in [1 .. n -> S] : Injective(s) }
XTokSeq == <<2, 3, 4, 7, 8, 9, 10, 11, 12, 13, 14, 15, 16, 17, 18>>          \* spellings with pairwise distinct values: the x column identifies the row
RTokSeq == <<2, 7, 8, 9, 12, 14, 6, 11>>                                     \* positive radii
ExOf(k, exv) == CASE exv = 0 -> <<>> [] exv = 1 -> <<XTokSeq[k + 5]>> [] exv = 2 -> <<XTokSeq[k + 5], 12>>
                  [] OTHER -> IF k % 2 = 0 THEN <<XTokSeq[k + 5]>> ELSE <<XTokSeq[k + 5], 12>>
DRow(ids, pids, k, exv) == MkD(ids[k], (k * 3) % 8, <<XTokSeq[k], ((k * 5) % NTok) + 1, ((k * 7 + 3) % NTok) + 1, RTokSeq[(k % Len(RTokSeq)) + 1]>>,
                               pids[k], ExOf(k, exv), (k % 4) + 1)
DRows(ids, pids, exv) == [k \in 1 .. Len(ids) |-> DRow(ids, pids, k, exv)]

\* parent-row functions: single-rooted trees (root row anywhere) and forests (acyclic, >= 1 root)
Acyclic(Q) == \A a \in Nodes(Q) : Par(Q, a) \in Nodes(Q) \cup {-1} /\ \E r \in Roots(Q) : r \in Anc(Q, a)
ForestTopos(n) == { Q \in [1 .. n -> -1 .. n - 1] : Acyclic(Q) /\ Cardinality(Roots(Q)) >= 2 }
Tables(topos(_)) == UNION { { [ids |-> ids, pids |-> PidsOf(ids, Q)] : ids \in { s \in IdSeqs : Len(s) = n }, Q \in topos(n) } : n \in 1 .. MaxN }

C(lead, body) == [k |-> "C", lead |-> lead, body |-> body, hdr |-> 0]
M(toks) == [k |-> "M", toks |-> toks]
Good == { C(1, "hello"), C(0, "x y"), C(1, "a{FF}b{VT}c{FS}1 2{TAB}3"), C(2, "1 1 0 0 0 1 -1"), C(0, ""), C(3, ""), [k |-> "C", lead |-> 1, body |-> HeaderBody, hdr |-> 1],
          [k |-> "C", lead |-> 1, body |-> HeaderBody \o " e", hdr |-> 1], C(2, HeaderBody), C(0, HeaderBody),
          [k |-> "B", sp |-> 0], [k |-> "B", sp |-> 1], [k |-> "B", sp |-> 2] }
Bad  == { M(<<"40", "1", "0", "0", "0", "1">>), M(<<"40", "1", "abc", "0", "0", "1", "1">>), M(<<"40", "1", "0", "nan", "0", "1", "1">>),
          M(<<"-40", "1", "0", "0", "0", "1", "1">>), M(<<"4.0", "1", "0", "0", "0", "1", "1">>), M(<<"40", "1", "0", "0", "0", "1", "1", "abc">>),
          M(<<"40", "1", "0", "0", "0", "1", "x">>), M(<<"40", "1.5", "0", "0", "0", "1", "1">>), M(<<"40", "1", "0", "0", "0", "1abc", "1">>),
          M(<<"40", "1", "0x10", "0", "0", "1", "1">>), M(<<"40", "1", "0", "0", "inf", "1", "1">>), M(<<"n", "40", "1", "0", "0", "0", "1", "1">>),
          M(<<"40">>), M(<<"40", "1", "0", "0", "1", "1">>), M(<<"abc">>), M(<<"40", "1", "1,5", "0", "0", "1", "1">>),
          [k |-> "U", lead |-> 1, body |-> "caf?", hdr |-> 0] }
NonData == Good \cup Bad
Ins(s, p, x) == SubSeq(s, 1, p) \o <<x>> \o SubSeq(s, p + 1, Len(s))
RECURSIVE WithExtra(_, _)
WithExtra(F, e) == IF e = 0 THEN F ELSE F \cup WithExtra(UNION { { Ins(f, p, x) : p \in 0 .. Len(f), x \in NonData } : f \in F }, e - 1)

BigBlank == [k |-> "B", sp |-> 3]                                            \* 2100 blanks: five of them push everything past the first read buffer
OptAt(j) == [nexsel |-> j % 2, mode |-> (j \div 2) % 3, enc |-> IF (j \div 6) % 2 = 0 THEN "utf-8" ELSE "latin-1", src |-> (j \div 12) % 3,
             entry |-> (j \div 36) % 2, nl |-> (j \div 72) % 2, term |-> (j \div 144) % 2, pad |-> (j \div 288) % 2]
MinEx(f) == LET d == DataLines(f) IN IF d = <<>> THEN 0 ELSE CHOOSE m \in 0 .. 2 : (\A k \in 1 .. Len(d) : Len(d[k].ex) >= m) /\ (m = 2 \/ \E k \in 1 .. Len(d) : Len(d[k].ex) = m)
\* the concrete option record of case j on file f (forest: never sorted; text sources are never decoded)
FixOpt(o, f, forest) == [nex |-> IF o.nexsel = 1 /\ MinEx(f) >= 1 THEN 1 ELSE 0,
                         mode |-> IF forest /\ o.mode = 0 THEN 2 ELSE o.mode,      \* 0 sort_nodes, 1 reset_index, 2 neither
                         enc |-> o.enc, src |-> o.src, entry |-> o.entry, nl |-> o.nl, term |-> o.term, pad |-> o.pad]
Render(f) == [k \in 1 .. Len(f) |-> IF f[k].k = "D" THEN [toks |-> Toks(f[k])] @@ f[k] ELSE f[k]]

TreeFiles   == UNION { WithExtra({DRows(t.ids, t.pids, (t.ids[1] + Len(t.ids)) % 4)}, IF Len(t.ids) <= Bad2N THEN 2 ELSE 1) : t \in Tables(TableTopos) }
ForestFiles == UNION { WithExtra({DRows(t.ids, t.pids, t.ids[1] % 4)}, 1) : t \in Tables(ForestTopos) }
ReadSeq == SetToSeq({ [file |-> f, forest |-> FALSE] : f \in TreeFiles } \cup { [file |-> f, forest |-> TRUE] : f \in ForestFiles })
ReadCases == [j \in 1 .. Len(ReadSeq) |->
                LET f == ReadSeq[j].file  o == FixOpt(OptAt((j * 37) % 576), f, ReadSeq[j].forest) IN
                [cid |-> j, op |-> "read", file |-> Render(IF o.pad = 1 THEN [q \in 1 .. 5 |-> BigBlank] \o f ELSE f), o |-> o]]

\* ---- C01: write -> read -> write -> read ----
Vals == << <<1, 0, 1>>, <<1, 123456, 1>>, <<-1, 250004, 1>>, <<1, 99996, 1>>, <<-1, 4, 1>>, <<1, 6, 1>>, <<1, 4999996, 1>>, <<-1, 99999, 1>>, <<1, 300000, 1>>, <<-1, 1234, 1>>, <<1, 77777, 1>> >>
VOf(a, b) == Vals[((a * 4 + b * 3) % Len(Vals)) + 1]
ROf(a) == <<1, 100000 + 12346 * a, 1>>
ComPool == { <<0, "">>, <<1, "">>, <<3, "">>, <<0, "a">>, <<2, "a b">>, <<0, "source: x">>, <<1, "1 1 0 0 0 1 -1">>, <<0, "# x">>,
             <<0, "a{FF}b">>, <<1, "p{LS}q 1">>, <<0, "m{NEL}n{VT}o{FS}1 2 3">>, <<2, "t{TAB}u">> }
ComLists == UNION { [1 .. n -> ComPool] : n \in 0 .. RTComMax }
RTTree(P, cm) == [P |-> P, ty |-> [k \in 1 .. Len(P) |-> (k * 3 + 1) % 8], v |-> [k \in 1 .. Len(P) |-> <<VOf(k, 1), VOf(k, 2), VOf(k, 3), ROf(k)>>], com |-> cm]
RTSeq == SetToSeq({ RTTree(P, cm) : P \in UNION { Topos(n) : n \in 1 .. RTMaxN }, cm \in ComLists })
Offs == <<1, 0, 2, 9, 1000>>
Srcs == <<"Unknown", "", "s">>
RTCases == [j \in 1 .. Len(RTSeq) |-> [cid |-> Len(ReadSeq) + j, op |-> "roundtrip", t |-> RTSeq[j], off |-> Offs[(j % 5) + 1], src |-> Srcs[(j % 3) + 1],
                                       wc |-> (j \div 3) % 4 # 0, kind |-> (j \div 2) % 3]]
\* specification-level round trip: reading what the writer specification emits returns the tree (rounded) and the comments
SpecRoundTrip(c) == LET r == Read(WrittenFile(c.t, c.off, c.src, c.wc), Opt(0, FALSE, TRUE, "utf-8")) IN
                    /\ r.st = "returned" /\ r.rows = RTRows(c.t)
                    /\ [k \in 1 .. Len(r.com) |-> r.com[k][2]] = RTBodies(c.t, c.src, c.wc)
ASSUME \A j \in 1 .. Len(RTCases) : SpecRoundTrip(RTCases[j])

VARIABLE done
Init == done = ndJsonSerialize(IOEnv.OUT, ReadCases \o RTCases) /\ RInit({<<>>}, {Opt(0, FALSE, FALSE, "utf-8")})
Next == FALSE /\ UNCHANGED <<done, rvars>>
Emitted == done => PrintT(<<"CASES", Len(ReadCases), Len(RTCases)>>)
=============================================================================
