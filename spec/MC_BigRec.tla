------------------------------ MODULE MC_BigRec ------------------------------
(***************************************************************************)
(* Trace_BigRec against StructRec on every small tree: every event         *)
(* sequence over the alphabet of plausible events (bounded length) gets    *)
(* the same verdict - accepted or rejected - from the folded big-tree      *)
(* judge and from StructRec's clauses applied event by event (mode "both", *)
(* start 0, distinct tokens).                                              *)
(***************************************************************************)
EXTENDS Trace_BigRec, Bags
CONSTANTS N, MaxLen
NoVal == -1
SR == INSTANCE StructRec WITH NoVal <- -1
Trees == SR!Topos(N)
VARIABLES P, evs, entered, left, vout, lout, tok, ok, done
vars == <<P, evs, entered, left, vout, lout, tok, ok, done>>
Init == P \in Trees /\ evs = <<>> /\ entered = {} /\ left = {} /\ vout = <<>> /\ lout = <<>> /\ tok = 1 /\ ok = TRUE /\ done = FALSE
Vals == {-1} \cup (1 .. 2 * N + 1)
\* one more event: any node, any handed-in value among those seen (or nothing), the next token is returned
Enter(i, pin) == /\ LET w == SR!EnterWhy(P, 0, "both", entered, left, vout, i, pin) IN ok' = (ok /\ w = "" /\ ~done)
                 /\ evs' = Append(evs, <<"E", i, pin, tok>>) /\ entered' = entered \cup {i} /\ vout' = (i :> tok) @@ vout
                 /\ tok' = tok + 1 /\ UNCHANGED <<P, left, lout, done>>
Leave(i, cs)  == /\ LET w == SR!LeaveWhy(P, 0, "both", entered, left, lout, i, cs) IN ok' = (ok /\ w = "" /\ ~done)
                 /\ evs' = Append(evs, <<"L", i, cs, tok>>) /\ left' = left \cup {i} /\ lout' = (i :> tok) @@ lout
                 /\ tok' = tok + 1 /\ UNCHANGED <<P, entered, vout, done>>
Return(v)     == /\ LET w == SR!ReturnWhy(P, 0, "both", entered, left, lout, v) IN ok' = (ok /\ w = "" /\ ~done)
                 /\ evs' = Append(evs, <<"R", v>>) /\ done' = TRUE /\ UNCHANGED <<P, entered, left, vout, lout, tok>>
Seen == {-1} \cup { vout[i] : i \in DOMAIN vout } \cup { lout[i] : i \in DOMAIN lout }
SeqsOf(S, m) == UNION { [1 .. k -> S] : k \in 0 .. m }
Next == /\ Len(evs) < MaxLen
        /\ \/ \E i \in 0 .. N - 1 : \E pin \in Seen : Enter(i, pin)
           \/ \E i \in 0 .. N - 1 : \E cs \in SeqsOf(Seen \ {-1}, 2) : Leave(i, cs)
           \/ \E v \in Seen : Return(v)
\* the folded judge and StructRec agree on every event sequence reached (a sequence that has not returned yet is judged up to its last event)
Agree == LET w == BigWhy(P, evs) IN
         (ok /\ done => w = "") /\ (ok /\ ~done => w = "no-return-event") /\ (~ok => w \notin {"", "no-return-event"})
=============================================================================
