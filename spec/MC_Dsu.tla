------------------------------- MODULE MC_Dsu -------------------------------
(***************************************************************************)
(* Every history of union / find / same operations on N elements: the      *)
(* concrete structure (parent, rank) against the abstract partition and    *)
(* against connectivity through the performed unions.  The state space is  *)
(* finite (no depth bound is needed).                                      *)
(***************************************************************************)
EXTENDS Dsu
CONSTANTS N, UseNoFind, TrackUnions
VARIABLES parent, rank, part, unions
vars == <<parent, rank, part, unions>>
Init == parent = Ident(N) /\ rank = [k \in 1 .. N |-> 0] /\ part = Ident(N) /\ unions = {}
Union(a, b) == /\ LET r == IF UseNoFind THEN UnionNoFind(parent, rank, a, b) ELSE UnionC(parent, rank, a, b) IN parent' = r[1] /\ rank' = r[2]
               /\ part' = MergeP(part, a, b) /\ unions' = (IF TrackUnions THEN unions \cup {{a, b}} ELSE unions)
Find(a)     == parent' = Compress(parent, a) /\ UNCHANGED <<rank, part, unions>>                        \* returns Root(parent, a)
Same(a, b)  == parent' = Compress(Compress(parent, a), b) /\ UNCHANGED <<rank, part, unions>>         \* returns Root(parent, a) = Root(parent, b)
Next == \E a, b \in Elems(N) : Union(a, b) \/ Find(a) \/ Same(a, b)
Spec == Init /\ [][Next]_vars

ForestInv == Forest(parent)
\* the C18 statement: joined exactly when some sequence of the performed unions connects them
SameOK    == \A a, b \in Elems(N) : (Root(parent, a) = Root(parent, b)) <=> Conn(unions, a, b)
PartOK    == \A a, b \in Elems(N) : SameP(part, a, b) <=> Conn(unions, a, b)                 \* the abstract merge is connectivity
SamePart  == \A a, b \in Elems(N) : (Root(parent, a) = Root(parent, b)) <=> SameP(part, a, b)       \* used where the history is not tracked (N = 5)
MatchOK   == MatchesWhy(part, Reps(parent)) = ""                                            \* and the O(n) trace check agrees
\* what find / same would answer in this state is Root(parent, .): SameOK and ForestInv are statements about every possible next query
FindStable == [][\A a \in Elems(N) : unions' = unions => Conn(unions, Root(parent', a), Root(parent, a))]_vars      \* queries never move an element to another class
RankOK    == \A r \in Elems(N) : parent[r + 1] = r => Pow2(rank[r + 1]) <= Cardinality({ a \in Elems(N) : Root(parent, a) = r })
=============================================================================
