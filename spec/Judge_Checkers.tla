---------------------------- MODULE Judge_Checkers ----------------------------
(* Judge for C18: checker answers on every table, and root repair on every forest, against Checkers.tla *)
EXTENDS Checkers, Json, IOUtils
Cases == ndJsonDeserialize(IOEnv.CASES)
Obs   == ndJsonDeserialize(IOEnv.OBS)
B(x) == IF x THEN 1 ELSE 0
WhyCheck(c, o) ==
    IF o.single  # B(Connected(c.P))        THEN "is_single_root"
    ELSE IF o.cyclic # B(HasCycle(c.P))     THEN "has_cyclic"
    ELSE IF o.sorted # B(ParentsPrecede(c.P)) THEN "is_sorted"
    ELSE IF o.bifex # B(AtMostTwo(c.P, TRUE)) THEN "is_bifurcate-root-exempt"
    ELSE IF o.bifall # B(AtMostTwo(c.P, FALSE)) THEN "is_bifurcate-root-included"
    ELSE ""
WhyRepair(c, o) ==
    IF c.mode = "off" THEN (IF o.R # c.P THEN "multi-root-read-changed-the-table"
                            ELSE IF o.attrok # 1 THEN "attributes"
                            ELSE IF o.via = "read" /\ o.warned # 1 THEN "multi-root-read-without-warning" ELSE "")
    ELSE LET w == RepairWhy(c.P, o.R) IN
         IF w # "" THEN w
         ELSE IF o.attrok # 1 THEN "attributes"
         ELSE IF c.mode = "somas" /\ o.R # SomasOf(c.P) THEN "somas-not-linked-to-the-first-root"
         ELSE ""
\* a later plain read of the same file (o.R2, when made) still finds the table as the file has it, with the warning
WhyAgain(c, o) == IF Len(o.R2) = 0 THEN "" ELSE IF o.R2 # c.P \/ o.warned2 # 1 THEN "later-plain-read-of-the-same-file-differs" ELSE ""
Why(c, o) == IF o.err # "" THEN "raised-" \o o.err ELSE IF c.op = "check" THEN WhyCheck(c, o)
             ELSE LET w == WhyRepair(c, o) IN IF w # "" THEN w ELSE WhyAgain(c, o)
VARIABLES l, bad
Init == l = 0 /\ bad = <<>>
Next == /\ l < Len(Obs)
        /\ l' = l + 1
        /\ LET o == Obs[l + 1]
               w == Why(Cases[o.cid], o) IN
           bad' = IF w = "" THEN bad ELSE Append(bad, <<o.cid, w>>)
Verdict == l = Len(Obs) => PrintT(<<"VERDICT", l, bad>>)
=============================================================================
