---------------------------- MODULE Judge_Affine ----------------------------
(* Judge for C12: coordinates produced by the real transforms (integers in units of 10^-3) and matrices built by the real *)
(* builders (units of 10^-6) against the exact rational values of Affine.tla                                              *)
EXTENDS Affine, Json, IOUtils
Cases == ndJsonDeserialize(IOEnv.CASES)
Obs   == ndJsonDeserialize(IOEnv.OBS)
\* floor(r * 1000) and the remainder, without leaving 32 bits for denominators up to 2 * 10^6 (TLA+ \div and % floor)
Times1000(r) == LET q == r[1] \div r[2]  rem == r[1] % r[2] IN <<q * 1000 + (rem * 1000) \div r[2], (rem * 1000) % r[2]>>
FloorScaled(r, unit) == IF unit = 1000 THEN Times1000(r)[1]
                        ELSE LET a == Times1000(r)  b == Times1000(<<a[2], r[2]>>) IN a[1] * 1000 + b[1]          \* unit = 10^6
\* small denominators: exact cross-multiplication; large ones (the very small angles): compare with the floor, one more unit of slack
Close(obs, r, unit, tol) == IF r[2] <= 20000 THEN AbsI(obs * r[2] - r[1] * unit) <= tol * r[2]
                            ELSE AbsI(obs - FloorScaled(r, unit)) <= tol + 1
\* expected values are recomputed here from the operation (the generator's own expectation is only used for the samples)
ExpFor(c, j) == IF c.kind = "inverse" THEN [k \in 1 .. Len(c.trees[j]) |-> PtI(c.trees[j][k])]
                ELSE IF c.kind = "pipe" THEN        \* two steps: the second acts about the root where the first left it
                     LET r == PtI(c.trees[j][1])  r2 == Apply(Eff(c.o, r), r) IN
                     [k \in 1 .. Len(c.trees[j]) |-> Apply(Eff(c.oi, r2), Apply(Eff(c.o, r), PtI(c.trees[j][k])))]
                ELSE [k \in 1 .. Len(c.trees[j]) |-> Apply(Eff(c.o, PtI(c.trees[j][1])), PtI(c.trees[j][k]))]
WhyTrees(c, o) ==
    IF Len(o.res) # Len(c.trees) THEN "result-count"
    ELSE IF \E j \in 1 .. Len(c.trees) : Len(o.res[j]) # Len(c.trees[j]) THEN "node-count"
    ELSE IF \E j \in 1 .. Len(c.trees) : \E k \in 1 .. Len(c.trees[j]) : \E i \in 1 .. 3 : ~Close(o.res[j][k][i], ExpFor(c, j)[k][i], 1000, 3)
         THEN (IF c.kind = "inverse" THEN "inverse-does-not-restore" ELSE "coordinates-" \o c.o.op \o "-" \o c.o.centre)
    ELSE IF o.kept # 1 THEN "parents-types-radii-or-input-changed"
    ELSE ""
WhyMatrix(c, o) == IF \E i, j \in 1 .. 4 : ~Close(o.m[i][j], Mat(c.o)[i][j], 1000000, 2) THEN "matrix-" \o c.o.op ELSE ""
Why(c, o) == IF o.err # "" THEN "raised-" \o o.err ELSE IF c.kind = "matrix" THEN WhyMatrix(c, o) ELSE WhyTrees(c, o)
VARIABLES l, bad
Init == l = 0 /\ bad = <<>>
Next == /\ l < Len(Obs)
        /\ l' = l + 1
        /\ LET o == Obs[l + 1]
               w == Why(Cases[o.cid], o) IN
           bad' = IF w = "" THEN bad ELSE Append(bad, <<o.cid, w>>)
Verdict == l = Len(Obs) => PrintT(<<"VERDICT", l, bad>>)
=============================================================================
