CONSTANTS P0 <- PZ  MaxSteps = 2 Emit = TRUE MaxTrees = 2 MaxViews = 3 Focus = FALSE
INIT Init
NEXT Next
INVARIANT EmitHist
