----------------------------- MODULE MC_Decomp -----------------------------
(***************************************************************************)
(* Algorithm layer for C08: Tree.get_branches as the code does it — a      *)
(* post-order (leave) accumulation in which every node hands its parent    *)
(* the pair (finished branches, pending chain), closes the pending chains  *)
(* of its children when it has 0 or >= 2 of them, and the final pending    *)
(* stem of a single-child root is closed after the traversal.              *)
(* One TLC state per topology; the invariants say the algorithm yields     *)
(* exactly the declarative branches and that those satisfy C08.            *)
(***************************************************************************)
EXTENDS Decomp, SequencesExt
CONSTANT MaxN, CloseStem
VARIABLE P

RECURSIVE Collect(_, _)
\* returns <<set of closed branches, pending chain (tip-to-here order, as the code appends)>>
Collect(T, i) ==
    LET ks  == Kids(T, i)
        pre == [c \in ks |-> Collect(T, c)] IN
    IF Cardinality(ks) = 1
    THEN LET c == OnlyKid(T, i) IN <<pre[c][1], Append(pre[c][2], i)>>
    ELSE << UNION { pre[c][1] \cup { Reverse(Append(pre[c][2], i)) } : c \in ks }, <<i>> >>

AlgBranches(T) == LET r == Collect(T, 0) IN
                  IF CloseStem /\ Len(r[2]) > 1 THEN r[1] \cup { Reverse(r[2]) } ELSE r[1]

Init == P \in UNION { Topos(n) : n \in 1 .. MaxN }
Next == UNCHANGED P

AlgIsSpec      == AlgBranches(P) = BranchSet(P)
SpecPartition  == EdgePartition(P, BranchSet(P))
SpecEnds       == BranchEnds(P, BranchSet(P))
SpecMaximal    == \A B \in SUBSET BranchSet(P) : B # BranchSet(P) => ~EdgePartition(P, B)
SpecPaths      == OnePathPerTip(P, Paths(P))
BTNodesReach   == \A k \in Critical(P) \ {0} : BTParent(P, k) \in Critical(P)
CountIdentity  == Cardinality(BranchSet(P)) = Cardinality(Critical(P)) - 1      \* one branch per non-root critical node
=============================================================================
