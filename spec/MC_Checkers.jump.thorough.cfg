CONSTANT MaxN = 6
CONSTANT Alg = "jump"
SPECIFICATION Spec
INVARIANT JumpRight
INVARIANT CycRight
PROPERTY Terminates
