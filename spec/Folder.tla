------------------------------- MODULE Folder -------------------------------
(***************************************************************************)
(* X02 (beyond the listed properties) — swcgeom.images.folder.             *)
(* An image-stack folder is a list of files; item i is the content of file *)
(* i (with its label / its path relative to the root), read when asked     *)
(* for.  ImageStackFolder.stat() streams over the files once and reports   *)
(* count, minimum, maximum, the mean over voxels of the per-voxel mean and  *)
(* the mean over voxels of the per-voxel sample variance (n - 1), computed  *)
(* with Welford's update.  An image is a sequence of V integer voxels.      *)
(***************************************************************************)
EXTENDS Rat, Naturals

\* ---- the definitions ----
RECURSIVE SumI(_, _, _)
SumI(imgs, v, k) == IF k = 0 THEN 0 ELSE imgs[k][v] + SumI(imgs, v, k - 1)
MeanV(imgs, v) == Q(SumI(imgs, v, Len(imgs)), Len(imgs))
RECURSIVE SqDev(_, _, _, _)
SqDev(imgs, v, m, k) == IF k = 0 THEN Zero ELSE RAdd(RSq(RSub(R(imgs[k][v]), m)), SqDev(imgs, v, m, k - 1))
VarV(imgs, v) == IF Len(imgs) < 2 THEN Zero ELSE RDiv(SqDev(imgs, v, MeanV(imgs, v), Len(imgs)), R(Len(imgs) - 1))
RECURSIVE SumR(_, _)
SumR(f, k) == IF k = 0 THEN Zero ELSE RAdd(f[k], SumR(f, k - 1))
NV(imgs) == Len(imgs[1])
StatMean(imgs) == RDiv(SumR([v \in 1 .. NV(imgs) |-> MeanV(imgs, v)], NV(imgs)), R(NV(imgs)))
StatVar(imgs)  == RDiv(SumR([v \in 1 .. NV(imgs) |-> VarV(imgs, v)], NV(imgs)), R(NV(imgs)))
AllVals(imgs) == UNION { { imgs[k][v] : v \in 1 .. NV(imgs) } : k \in 1 .. Len(imgs) }
StatMin(imgs) == CHOOSE x \in AllVals(imgs) : \A y \in AllVals(imgs) : x <= y
StatMax(imgs) == CHOOSE x \in AllVals(imgs) : \A y \in AllVals(imgs) : x >= y

\* ---- Welford's update, as the code performs it (per voxel) ----
WInit(V) == [n |-> 0, mean |-> [v \in 1 .. V |-> Zero], m2 |-> [v \in 1 .. V |-> Zero]]
WStep(s, img) == LET n1 == s.n + 1
                     d(v)  == RSub(R(img[v]), s.mean[v])
                     mn(v) == RAdd(s.mean[v], RDiv(d(v), R(n1))) IN
                 [n |-> n1, mean |-> [v \in 1 .. Len(img) |-> mn(v)],
                  m2 |-> [v \in 1 .. Len(img) |-> RAdd(s.m2[v], RMul(d(v), RSub(R(img[v]), mn(v))))]]
\* the invariant that makes it right: after k images, mean = the mean of the first k and m2 = their summed squared deviations
WInv(s, imgs) == s.n = Len(imgs) /\ (Len(imgs) > 0 => \A v \in 1 .. NV(imgs) :
                    s.mean[v] = MeanV(imgs, v) /\ s.m2[v] = SqDev(imgs, v, MeanV(imgs, v), Len(imgs)))
=============================================================================
