CONSTANTS Alphabet = {"(", ")", "|", ";", " ", "\n", "1", ".", "-", "e", "a"} MaxLen = 5
INIT Init
NEXT Next
INVARIANT Emitted
