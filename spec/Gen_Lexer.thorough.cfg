CONSTANTS Alphabet <- SmallAlphabet MaxLen = 5
INIT Init
NEXT Next
INVARIANT Emitted
