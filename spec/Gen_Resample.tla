---------------------------- MODULE Gen_Resample ----------------------------
EXTENDS Resample, SequencesExt, Json, IOUtils
CONSTANTS MaxN, NV
AllVecs == << <<1, 0, 0>>, <<0, 2, 0>>, <<0, 0, -3>>, <<0, 0, 0>>, <<-1, 0, 0>>, <<0, 1, 0>> >>
Vecs == { AllVecs[k] : k \in 1 .. NV }
RECURSIVE PosAt(_, _, _)
PosAt(P, vs, i) == IF i = 0 THEN <<0, 0, 0>> ELSE LET p == PosAt(P, vs, Par(P, i)) IN <<p[1] + vs[i + 1][1], p[2] + vs[i + 1][2], p[3] + vs[i + 1][3]>>
PlaceAll(P, vs) == [k \in 1 .. Len(P) |-> PosAt(P, vs, k - 1)]
\* radii: equal across zero-length segments (where "linear along the branch" says nothing), otherwise varying
RECURSIVE RadAt(_, _, _)
RadAt(P, vs, i) == IF i = 0 THEN 2 ELSE IF vs[i + 1] = <<0, 0, 0>> THEN RadAt(P, vs, Par(P, i)) ELSE 1 + ((i * 2 + RadAt(P, vs, Par(P, i))) % 4)
Shapes == UNION { Topos(n) : n \in 2 .. MaxN }        \* every numbering with the root at 0 (children may precede their parents)
Trees == { t \in UNION { { [P |-> P, pos |-> PlaceAll(P, vs), rad |-> [k \in 1 .. Len(P) |-> RadAt(P, vs, k - 1)]] : vs \in [1 .. Len(P) -> Vecs] } : P \in Shapes } :
             CriticalsOK(t.P, t.pos) }
Spacings == << <<1, 2>>, <<1, 1>>, <<3, 2>>, <<2, 1>>, <<10, 1>>, <<3, 4>> >>
TreeSeq == SetToSeq(Trees)
TreeCases == [j \in 1 .. Len(TreeSeq) |-> [cid |-> j, kind |-> "tree", sp |-> Spacings[(j % 6) + 1], adjust |-> (j % 5 # 0), rtype |-> (j % 4) + 1, win |-> 1 + (j % 6),
                                           n |-> 2 + (j % 5)] @@ TreeSeq[j]]
VARIABLE done
Init == done = ndJsonSerialize(IOEnv.OUT, TreeCases)
Next == FALSE /\ UNCHANGED done
Emitted == done => PrintT(<<"CASES", Len(TreeSeq)>>)
=============================================================================
