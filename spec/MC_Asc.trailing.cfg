CONSTANTS MaxPts = 3 MaxDepth = 1 MaxAlts = 2 MaxMark = 0 Emit = FALSE Fixed = "trailing" LeadingEmpty = TRUE
SPECIFICATION Spec
INVARIANT RejectsCorrupt
