CONSTANT Big = FALSE
INIT Init
NEXT Next
INVARIANT Emitted
