--------------------------- MODULE Judge_Subtree ---------------------------
(* Judge for C06: every observation of the real library is checked against  *)
(* the declarative survivors of Subtree.tla.  One TLC state per observation.*)
EXTENDS Subtree, Json, IOUtils
Cases == ndJsonDeserialize(IOEnv.CASES)
Obs   == ndJsonDeserialize(IOEnv.OBS)

SetOf(s) == { s[k] : k \in DOMAIN s }
Keep(c) == CASE c.op = "get_subtree"  -> KeepSubtree(c.P, c.i)
             [] c.op = "to_subtree"   -> KeepRemove(c.P, SetOf(c.R))
             [] c.op = "cut_enter"    -> KeepCutEnter(c.P, SetOf(c.S), c.D)
             [] c.op = "cut_leave"    -> KeepCutLeave(c.P, SetOf(c.S), c.M)
             [] c.op = "cut_type"     -> KeepType(c.P, [k \in DOMAIN c.attr |-> c.attr[k][1]], c.t)
             [] c.op = "cut_order"    -> KeepOrder(c.P, c.k)
             [] c.op = "cut_shorttip" -> KeepShortTip(c.P, c.el, c.thr)

\* neurites / dendrites: o.parts = the returned trees, each projected like a single result
PartsWhy(c, o) ==
    LET want == IF c.dend = 1 THEN Dendrites(c.P, [k \in DOMAIN c.attr |-> c.attr[k][1]]) ELSE Neurites(c.P)
        got(k) == SetOf(o.parts[k].map)
        whys == [k \in DOMAIN o.parts |-> ResultWhy(c.P, c.attr, got(k), o.parts[k].map, o.parts[k].rpid, o.parts[k].rattr)] IN
    IF Len(o.parts) # Cardinality(want) THEN "number-of-neurites"
    ELSE IF \E k \in DOMAIN o.parts : got(k) \notin want THEN "kept-set"
    ELSE IF \E k, m \in DOMAIN o.parts : k # m /\ got(k) = got(m) THEN "kept-set"
    ELSE IF \E k \in DOMAIN o.parts : whys[k] # "" THEN whys[CHOOSE k \in DOMAIN o.parts : whys[k] # ""]
    ELSE IF o.srcchanged # 0 THEN "input-modified"
    ELSE IF o.idsok # 1 THEN "ids-not-positions"
    ELSE ""
\* "" = accepted; otherwise the first failing clause
Why(c, o) ==
    IF o.err # "" THEN "raised-" \o o.err
    ELSE IF c.op = "neurites" THEN PartsWhy(c, o)
    ELSE LET w == ResultWhy(c.P, c.attr, Keep(c), o.map, o.rpid, o.rattr) IN
         IF w # "" THEN w
         ELSE IF o.omap # <<-9>> /\ o.omap # o.map THEN "reported-mapping"   \* <<-9>>: the API reports no mapping
         ELSE IF o.srcchanged # 0 THEN "input-modified"
         ELSE IF o.idsok # 1 THEN "ids-not-positions"
         ELSE ""

VARIABLES l, bad
Init == l = 0 /\ bad = <<>>
Next == /\ l < Len(Obs)
        /\ l' = l + 1
        /\ LET o == Obs[l + 1]
               w == Why(Cases[o.cid], o) IN
           bad' = IF w = "" THEN bad ELSE Append(bad, <<o.cid, w>>)
Verdict == l = Len(Obs) => PrintT(<<"VERDICT", l, bad>>)
=============================================================================
