CONSTANTS PipeLen = 2 StartN = {1,2,3,4} NRandom = 5000 LongDepth = 10 SingleN = {5, 6}
INIT Init
NEXT Next
INVARIANT Emitted
