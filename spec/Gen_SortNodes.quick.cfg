CONSTANT MaxN = 4
CONSTANT Pools = {{0,1,2,3},{3,7,11,5}}
CONSTANT SlimTop = FALSE
INIT Init
NEXT Next
INVARIANT Emitted
