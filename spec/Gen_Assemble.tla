---------------------------- MODULE Gen_Assemble ----------------------------
(* X03: case generator — every sequence of at most M lines from the pool, both end-point modes *)
EXTENDS AssembleProp, SequencesExt, Json, IOUtils
CONSTANTS M, GPool
Seqs == UNION { [1 .. n -> GPool] : n \in 1 .. M }
Cases == { [lines |-> s, und |-> u, t2 |-> 1] : s \in Seqs, u \in BOOLEAN }
AllSeq == SetToSeq(Cases)
Numbered == [j \in 1 .. Len(AllSeq) |-> [cid |-> j, lines |-> AllSeq[j].lines, und |-> AllSeq[j].und, t2 |-> AllSeq[j].t2]]
VARIABLE gdone
GInit == gdone = ndJsonSerialize(IOEnv.OUT, Numbered)
GNext == FALSE /\ UNCHANGED gdone
Emitted == gdone => PrintT(<<"CASES", Len(AllSeq)>>)
=============================================================================
