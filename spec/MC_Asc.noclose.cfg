CONSTANTS MaxPts = 4 MaxDepth = 2 MaxAlts = 2 MaxMark = 0 Emit = FALSE Fixed = "noclose" LeadingEmpty = FALSE
SPECIFICATION Spec
INVARIANT Faithful
INVARIANT RejectsTruncated
