CONSTANT N = 4
CONSTANT UseNoFind = FALSE
CONSTANT TrackUnions = TRUE
SPECIFICATION Spec
INVARIANT ForestInv
INVARIANT SameOK
INVARIANT PartOK
INVARIANT SamePart
INVARIANT MatchOK
INVARIANT RankOK
PROPERTY FindStable
