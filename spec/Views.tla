------------------------------- MODULE Views -------------------------------
(***************************************************************************)
(* C09 — node, path, branch and segment views are faithful windows onto    *)
(* their tree.                                                             *)
(* State (a record s):                                                     *)
(*   s.data   sequence of trees; tree t = [x |-> column, ty |-> column]    *)
(*            (all trees share the constant topology P0; a copy is a new   *)
(*            entry)                                                       *)
(*   s.views  sequence of views [kind, owner, idx, snap]:                  *)
(*            kind \in node | nodes | path | branch | seg, attached to     *)
(*            tree `owner` at node indices idx (in order);                 *)
(*            kind = "det": a detached copy with its own content snap      *)
(* Actions are values (records) so that the same definitions drive the     *)
(* model checker, the generator and the trace validator:                   *)
(*   Enabled(s) the set of actions possible in s;  Do(s, a) the successor. *)
(* What a view reports is *defined* as the owner's current columns at idx: *)
(* that is the Window property; the trace validator compares it with what  *)
(* the real objects report after every step.                               *)
(***************************************************************************)
EXTENDS SwcBase, Decomp

\* Python's index / slice normalisation
NormKey(n, key)   == IF key < 0 THEN key + n ELSE key
KeyOK(n, key)     == key >= -n /\ key < n
Clamp(n, v)       == IF v < 0 THEN (IF v + n < 0 THEN 0 ELSE v + n) ELSE (IF v > n THEN n ELSE v)
SliceIdx(n, lo, hi) == LET a == Clamp(n, lo)  b == Clamp(n, hi) IN [k \in 1 .. (IF b > a THEN b - a ELSE 0) |-> a + k - 1]
NoneLo == 0
NoneHi == 99            \* stands for an omitted slice bound

BranchSeq(P) == LET S == BranchSet(P) IN
                LET RECURSIVE Ord(_)
                    Ord(T) == IF T = {} THEN <<>> ELSE LET b == CHOOSE b \in T : \A c \in T : b[Len(b)] <= c[Len(c)] IN <<b>> \o Ord(T \ {b})
                IN Ord(S)                         \* branches ordered by their end node (each non-root critical node ends exactly one)

Read(s, v) == IF v.kind = "det" THEN v.snap
              ELSE [x  |-> [k \in DOMAIN v.idx |-> s.data[v.owner].x[v.idx[k] + 1]],
                    ty |-> [k \in DOMAIN v.idx |-> s.data[v.owner].ty[v.idx[k] + 1]],
                    id |-> v.idx]

WCols == {"x", "ty", "e"}             \* the columns a history writes through node handles
EnabledAll(P, s, Keys, Vals) ==
    LET n == Len(P)  T == DOMAIN s.data  V == DOMAIN s.views IN
       { [a |-> "node", t |-> t, key |-> key] : t \in T, key \in { q \in Keys : KeyOK(n, q) } }
  \cup { [a |-> "index_error", t |-> t, key |-> key] : t \in T, key \in { q \in Keys : ~KeyOK(n, q) } }
  \cup { [a |-> "slice", t |-> t, lo |-> lo, hi |-> hi] : t \in T, lo \in {NoneLo, 1, -2}, hi \in {NoneHi, -1} }
  \cup { [a |-> "path", t |-> t, tip |-> tip] : t \in T, tip \in Tips(P) }
  \cup { [a |-> "branch", t |-> t, b |-> b] : t \in T, b \in 1 .. Len(BranchSeq(P)) }
  \cup { [a |-> "seg", t |-> t, c |-> c] : t \in T, c \in 1 .. n - 1 }
  \cup { [a |-> "write", v |-> v, col |-> col, val |-> val] : v \in { w \in V : s.views[w].kind = "node" }, col \in WCols, val \in Vals }
  \cup { [a |-> "copy", t |-> t] : t \in T }
  \cup { [a |-> "detach", v |-> v] : v \in { w \in V : s.views[w].kind \in {"node", "path", "branch", "seg"} } }

Enabled(P, s, Keys, Vals, Acts) == { act \in EnabledAll(P, s, Keys, Vals) : act.a \in Acts }

View(kind, t, idx) == [kind |-> kind, owner |-> t, idx |-> idx, snap |-> <<>>]
Do(P, s, act) ==
    LET n == Len(P) IN
    CASE act.a = "node"   -> [s EXCEPT !.views = Append(@, View("node", act.t, <<NormKey(n, act.key)>>))]
      [] act.a = "index_error" -> s
      [] act.a = "slice"  -> [s EXCEPT !.views = Append(@, View("nodes", act.t, SliceIdx(n, act.lo, act.hi)))]
      [] act.a = "path"   -> [s EXCEPT !.views = Append(@, View("path", act.t, PathTo(P, act.tip)))]
      [] act.a = "branch" -> [s EXCEPT !.views = Append(@, View("branch", act.t, BranchSeq(P)[act.b]))]
      [] act.a = "seg"    -> [s EXCEPT !.views = Append(@, View("seg", act.t, <<Par(P, act.c), act.c>>))]
      [] act.a = "write"  -> LET v == s.views[act.v] IN
                             IF act.col = "x" THEN [s EXCEPT !.data[v.owner].x[v.idx[1] + 1] = act.val]
                             ELSE IF act.col = "e" THEN [s EXCEPT !.data[v.owner].e[v.idx[1] + 1] = act.val]
                                              ELSE [s EXCEPT !.data[v.owner].ty[v.idx[1] + 1] = act.val]
      [] act.a = "copy"   -> [s EXCEPT !.data = Append(@, s.data[act.t])]
      [] act.a = "detach" -> [s EXCEPT !.views = Append(@, [kind |-> "det", owner |-> 0, idx |-> s.views[act.v].idx, snap |-> Read(s, s.views[act.v])])]

\* column e is an extra (non-SWC) per-node column: it survives copies and is written through node handles like any other column
S0(P) == [data |-> << [x |-> [k \in 1 .. Len(P) |-> 10 + k], ty |-> [k \in 1 .. Len(P) |-> 1 + (k % 3)], e |-> [k \in 1 .. Len(P) |-> 50 + k]] >>, views |-> <<>>]

\* everything every live object reports, in a fixed order (trees first, then views)
Report(P, s) == [trees |-> [t \in DOMAIN s.data |-> [x |-> s.data[t].x, ty |-> s.data[t].ty, e |-> s.data[t].e]],
                 views |-> [v \in DOMAIN s.views |-> Read(s, s.views[v])]]
\* segments
BranchSegs(b) == [k \in 1 .. Len(b) - 1 |-> <<b[k], b[k + 1]>>]
TreeSegs(P)   == [c \in 1 .. Len(P) - 1 |-> <<Par(P, c), c>>]
=============================================================================
