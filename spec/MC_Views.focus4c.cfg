CONSTANTS P0 <- PC  MaxSteps = 4 Emit = TRUE MaxTrees = 2 MaxViews = 3 Focus = TRUE
INIT Init
NEXT Next
INVARIANT EmitHist
