------------------------------- MODULE Gen_Dsu -------------------------------
(* histories for C18's disjoint-set structure: every sequence of at most L operations on N elements, *)
(* and every sequence of LU unions followed by finds of every element (deepest chains)              *)
EXTENDS Dsu, SequencesExt, Json, IOUtils
CONSTANTS N, L, LU
OpsA == { <<"U", p[1], p[2]>> : p \in { q \in Elems(N) \X Elems(N) : q[1] # q[2] } } \cup { <<"F", a, 0>> : a \in Elems(N) } \cup { <<"S", p[1], p[2]>> : p \in { q \in Elems(N) \X Elems(N) : q[1] < q[2] } }
Mixed == UNION { [1 .. n -> OpsA] : n \in 1 .. L }
UOnly == { s \o [k \in 1 .. N |-> <<"F", k - 1, 0>>] : s \in [1 .. LU -> { <<"U", p[1], p[2]>> : p \in { q \in Elems(N) \X Elems(N) : q[1] < q[2] } }] }
AllSeq == SetToSeq(Mixed \cup UOnly)
Numbered == [j \in 1 .. Len(AllSeq) |-> [cid |-> j, op |-> "dsu", n |-> N, ops |-> AllSeq[j]]]
VARIABLE done
Init == done = ndJsonSerialize(IOEnv.OUT, Numbered)
Next == FALSE /\ UNCHANGED done
Emitted == done => PrintT(<<"CASES", Len(AllSeq)>>)
=============================================================================
