-------------------------- MODULE Trace_StructRec --------------------------
(***************************************************************************)
(* Trace validation for C04: the events recorded from the real traversal   *)
(* (callbacks that log what they were handed and return fresh tokens) are  *)
(* replayed through StructRec, one TLC state per event.  An event that     *)
(* StructRec does not allow ends that trace with the failing clause; every *)
(* other trace is still validated (total verdict).                         *)
(* Events: <<"E", node, value handed in, token returned>>,                 *)
(*         <<"L", node, <<values handed in>>, token returned>>,            *)
(*         <<"R", value returned by the traversal>>; -1 stands for None.   *)
(***************************************************************************)
EXTENDS StructRec, Json, IOUtils
Cases == ndJsonDeserialize(IOEnv.CASES)
Obs   == ndJsonDeserialize(IOEnv.OBS)
MinusOne == -1

VARIABLES ci, k, entered, left, vout, lout, bad
vars == <<ci, k, entered, left, vout, lout, bad>>
Reset == entered' = {} /\ left' = {} /\ vout' = <<>> /\ lout' = <<>> /\ k' = 0
Init == ci = 1 /\ k = 0 /\ entered = {} /\ left = {} /\ vout = <<>> /\ lout = <<>> /\ bad = <<>>

EventWhy(c, e) ==
    CASE e[1] = "E" -> EnterWhy(c.P, c.start, c.mode, entered, left, vout, e[2], e[3])
      [] e[1] = "L" -> LeaveWhy(c.P, c.start, c.mode, entered, left, lout, e[2], e[3])
      [] e[1] = "R" -> ReturnWhy(c.P, c.start, c.mode, entered, left, lout, e[2])
      [] OTHER -> "unknown-event"

Fail(o, w) == bad' = Append(bad, <<o.cid, w>>) /\ ci' = ci + 1 /\ Reset

Step == /\ ci <= Len(Obs)
        /\ LET o == Obs[ci]
               c == Cases[o.cid] IN
           IF o.err # "" THEN Fail(o, "raised-" \o o.err)
           ELSE IF k < Len(o.events) THEN
                LET e == o.events[k + 1]
                    w == EventWhy(c, e) IN
                IF w # "" THEN Fail(o, w)
                ELSE IF e[1] = "R" /\ k + 1 # Len(o.events) THEN Fail(o, "events-after-return")
                ELSE /\ k' = k + 1 /\ ci' = ci /\ bad' = bad
                     /\ entered' = IF e[1] = "E" THEN entered \cup {e[2]} ELSE entered
                     /\ vout'    = IF e[1] = "E" THEN (e[2] :> e[4]) @@ vout ELSE vout
                     /\ left'    = IF e[1] = "L" THEN left \cup {e[2]} ELSE left
                     /\ lout'    = IF e[1] = "L" THEN (e[2] :> e[4]) @@ lout ELSE lout
           ELSE IF Len(o.events) = 0 \/ o.events[Len(o.events)][1] # "R" THEN Fail(o, "no-return-event")
           ELSE ci' = ci + 1 /\ Reset /\ bad' = bad
Next == Step
Verdict == ci = Len(Obs) + 1 => PrintT(<<"VERDICT", Len(Obs), bad>>)
=============================================================================
