CONSTANT G = 5
INIT Init
NEXT Next
INVARIANT Emitted
