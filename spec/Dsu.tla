-------------------------------- MODULE Dsu --------------------------------
(***************************************************************************)
(* C18 — the disjoint-set structure.                                       *)
(* Abstract state: part, the partition as a sequence (element e at index   *)
(* e+1) mapping each element to the least element of its class.  Concrete  *)
(* state (as swcgeom.utils.DisjointSetUnion keeps it): parent and rank.    *)
(* "unions" is the history of performed unions; the statement of C18 is    *)
(* about it: two elements are reported joined exactly when some sequence   *)
(* of the unions performed so far connects them.                           *)
(***************************************************************************)
EXTENDS Integers, Sequences, FiniteSets, TLC

Elems(n) == 0 .. n - 1
Ident(n) == [k \in 1 .. n |-> k - 1]
Least(S) == CHOOSE x \in S : \A y \in S : x <= y

\* ---- declarative connectivity over a set of performed unions (each a set {a, b}) ----
Grow(U, S) == S \cup UNION { e \in U : e \cap S # {} }
RECURSIVE Closure(_, _)
Closure(U, S) == LET T == Grow(U, S) IN IF T = S THEN S ELSE Closure(U, T)
Conn(U, a, b) == b \in Closure(U, {a})

\* ---- abstract operations on part ----
MergeP(part, a, b) == LET ca == part[a + 1]  cb == part[b + 1]  m == IF ca < cb THEN ca ELSE cb IN
                      [k \in 1 .. Len(part) |-> IF part[k] \in {ca, cb} THEN m ELSE part[k]]
SameP(part, a, b)  == part[a + 1] = part[b + 1]
\* observed representatives (element -> the element its parent chain ends in) induce exactly the partition part  (O(n))
MatchesWhy(part, reps) ==
    IF Len(reps) # Len(part) THEN "size"
    ELSE IF \E k \in 1 .. Len(part) : reps[k] \notin Elems(Len(part)) THEN "representative-out-of-range"
    ELSE IF \E k \in 1 .. Len(part) : part[reps[k] + 1] # part[k] THEN "joined-but-never-united"          \* the representative lies in another class
    ELSE IF \E k \in 1 .. Len(part) : reps[k] # reps[part[k] + 1] THEN "united-but-not-joined"            \* one class, two representatives
    ELSE ""

\* ---- the concrete structure ----
RECURSIVE RootOf(_, _, _)
RootOf(parent, a, fuel) == IF parent[a + 1] = a \/ fuel = 0 THEN a ELSE RootOf(parent, parent[a + 1], fuel - 1)
Root(parent, a) == RootOf(parent, a, Len(parent))
RECURSIVE PathOf(_, _, _)
PathOf(parent, a, fuel) == IF parent[a + 1] = a \/ fuel = 0 THEN {} ELSE {a} \cup PathOf(parent, parent[a + 1], fuel - 1)
\* find_parent: returns the root and points every node on the path at it (recursive path compression)
Compress(parent, a) == LET r == Root(parent, a)  path == PathOf(parent, a, Len(parent)) IN
                       [k \in 1 .. Len(parent) |-> IF (k - 1) \in path THEN r ELSE parent[k]]
\* union_sets: find both roots (compressing), then link by rank
UnionC(parent, rank, a, b) ==
    LET p1 == Compress(parent, a)  ra == Root(parent, a)
        p2 == Compress(p1, b)      rb == Root(p1, b) IN
    IF ra = rb THEN <<p2, rank>>
    ELSE IF rank[ra + 1] < rank[rb + 1] THEN <<[p2 EXCEPT ![ra + 1] = rb], rank>>
    ELSE IF rank[ra + 1] > rank[rb + 1] THEN <<[p2 EXCEPT ![rb + 1] = ra], rank>>
    ELSE <<[p2 EXCEPT ![rb + 1] = ra], [rank EXCEPT ![ra + 1] = @ + 1]>>
\* named deviation: link the elements themselves instead of their roots
UnionNoFind(parent, rank, a, b) == IF Root(parent, a) = Root(parent, b) THEN <<parent, rank>> ELSE <<[parent EXCEPT ![b + 1] = a], rank>>
Reps(parent) == [k \in 1 .. Len(parent) |-> Root(parent, k - 1)]
Forest(parent) == \A a \in Elems(Len(parent)) : parent[Root(parent, a) + 1] = Root(parent, a)      \* every chain ends in a self-parent
RECURSIVE Pow2(_)
Pow2(k) == IF k = 0 THEN 1 ELSE 2 * Pow2(k - 1)
=============================================================================
