------------------------------ MODULE Trace_Dsu ------------------------------
(***************************************************************************)
(* Trace validation for C18's disjoint-set structure.  A trace is the      *)
(* history of one real DisjointSetUnion object: after every public call    *)
(* the harness logs <<op, a, b, result, reps>> where reps[e+1] is the      *)
(* element that e's parent chain ends in (read from element_parent without *)
(* calling the structure).  The abstract state is the partition part of    *)
(* Dsu.tla; every event must be an abstract step:                          *)
(*   "U" union_sets(a,b) : part' = MergeP(part,a,b)                        *)
(*   "S" is_same_set(a,b): result = SameP(part,a,b), part unchanged        *)
(*   "F" find_parent(a)  : result is a's current representative            *)
(* and after every event the observed representatives must induce part'.   *)
(* Traces recorded from the structure inside has_cyclic (op "dsu_rec")     *)
(* carry has_cyclic's answer, which must equal Checkers!HasCycle.          *)
(***************************************************************************)
EXTENDS Checkers, Json, IOUtils
Cases == ndJsonDeserialize(IOEnv.CASES)
Obs   == ndJsonDeserialize(IOEnv.OBS)
VARIABLES ci, k, part, bad
Init == ci = 1 /\ k = 0 /\ part = <<>> /\ bad = <<>>
Fail(o, w) == bad' = Append(bad, <<o.cid, w>>) /\ ci' = ci + 1 /\ k' = 0 /\ part' = <<>>
Step == /\ ci <= Len(Obs)
        /\ LET o == Obs[ci]
               c == Cases[o.cid]
               cur == IF k = 0 THEN Ident(c.n) ELSE part IN
           IF o.err # "" THEN Fail(o, "raised-" \o o.err)
           ELSE IF k < Len(o.events) THEN
                LET e == o.events[k + 1]
                    nxt == IF e[1] = "U" THEN MergeP(cur, e[2], e[3]) ELSE cur
                    w == IF e[1] = "S" /\ (e[4] = 1) # SameP(cur, e[2], e[3]) THEN "same-set-answer"
                         ELSE IF e[1] = "F" /\ (e[4] \notin Elems(c.n) \/ e[4] # e[5][e[2] + 1]) THEN "find-result-is-not-the-representative"
                         ELSE MatchesWhy(nxt, e[5]) IN
                IF w # "" THEN Fail(o, w) ELSE k' = k + 1 /\ part' = nxt /\ ci' = ci /\ bad' = bad
           ELSE IF c.op = "dsu" /\ Len(o.events) # Len(c.ops) THEN Fail(o, "history-not-completed")
           ELSE IF c.op = "dsu_rec" /\ (o.answer = 1) # HasCycle(c.P) THEN Fail(o, "has_cyclic-answer")
           ELSE ci' = ci + 1 /\ k' = 0 /\ part' = <<>> /\ bad' = bad
Next == Step
Verdict == ci = Len(Obs) + 1 => PrintT(<<"VERDICT", Len(Obs), bad>>)
=============================================================================
