CONSTANTS MaxSteps = 8 MaxObjs = 9 Emit = TRUE Wide = TRUE Only = {}
INIT Init
NEXT Next
INVARIANT EmitHist
