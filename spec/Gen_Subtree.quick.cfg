CONSTANTS MaxN = 5  MaxNHeavy = 4
INIT Init
NEXT Next
INVARIANT Emitted
