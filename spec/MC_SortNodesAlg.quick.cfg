CONSTANT MaxN = 4
CONSTANT Pools = {{0,1,2,3},{1,2,3,4},{2,5,7,11}}
SPECIFICATION Spec
INVARIANT Refines
PROPERTY Terminates
