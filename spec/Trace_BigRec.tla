---------------------------- MODULE Trace_BigRec ----------------------------
(***************************************************************************)
(* StructRec (C04) for trees of tens of thousands of nodes of any shape    *)
(* and numbering, traversed from the root with both callbacks.  The event  *)
(* list is folded in one evaluation (FoldLeft is evaluated iteratively);   *)
(* the StructRec state - which nodes were entered / left, what their calls *)
(* returned, how many children of a node have been left - is kept in       *)
(* two-level arrays so that one event costs O(sqrt n).  Tokens returned by *)
(* the callbacks are pairwise distinct positive integers (a counter), so   *)
(* "the values the children's calls returned" is decided through the owner *)
(* of each value.  The clauses are StructRec's; MC_BigRec checks on every  *)
(* small tree that this module rejects exactly what StructRec rejects.     *)
(***************************************************************************)
EXTENDS Integers, Sequences, SequencesExt, FiniteSets, TLC
B == 256
Blocks(n) == (n \div B) + 1
Arr(n, v) == LET row == [y \in 1 .. B |-> v] \o <<>> IN [x \in 1 .. Blocks(n) |-> row] \o <<>>      \* (\o forces TLC to build explicit tuples: EXCEPT on a lazily represented function would chain the updates)
Get(a, i) == a[(i \div B) + 1][(i % B) + 1]
Set(a, i, v) == [a EXCEPT ![(i \div B) + 1][(i % B) + 1] = v]

\* number of children of every node (two-level array), from the parent sequence P (P[i+1] = parent of i, -1 for the root)
Degrees(P) == FoldLeft(LAMBDA a, p : IF p = -1 THEN a ELSE Set(a, p, Get(a, p) + 1), Arr(Len(P), 0), P)

Acc0(P) == [why |-> "", ent |-> Arr(Len(P), 0), lft |-> Arr(Len(P), 0), vout |-> Arr(Len(P), 0), lout |-> Arr(Len(P), 0),
            nkl |-> Arr(Len(P), 0), owner |-> Arr(2 * Len(P) + 2, -1), ne |-> 0, nl |-> 0, ret |-> 0]
InRange(P, i) == i >= 0 /\ i < Len(P)
Par(P, i) == P[i + 1]
Distinct(s) == Cardinality({ s[k] : k \in DOMAIN s }) = Len(s)

StepWhy(P, deg, acc, e) ==
    IF acc.ret = 1 THEN "events-after-return"
    ELSE IF e[1] = "E" THEN
         LET i == e[2]  pin == e[3] IN
         IF ~InRange(P, i)                                      THEN "visited-node-outside-subtree"
         ELSE IF Get(acc.ent, i) = 1                            THEN "entered-twice"
         ELSE IF Get(acc.lft, i) = 1                            THEN "entered-after-leaving"
         ELSE IF Par(P, i) = -1 /\ pin # -1                      THEN "start-node-was-handed-a-value"
         ELSE IF Par(P, i) # -1 /\ Get(acc.ent, Par(P, i)) = 0   THEN "entered-before-parent"
         ELSE IF Par(P, i) # -1 /\ pin # Get(acc.vout, Par(P, i)) THEN "not-the-parents-value"
         ELSE IF e[4] < 1 \/ e[4] > 2 * Len(P) + 1             THEN "MACHINERY-token-out-of-range"
         ELSE ""
    ELSE IF e[1] = "L" THEN
         LET i == e[2]  cs == e[3] IN
         IF ~InRange(P, i)                                      THEN "visited-node-outside-subtree"
         ELSE IF Get(acc.lft, i) = 1                            THEN "left-twice"
         ELSE IF Get(acc.ent, i) = 0                            THEN "left-before-entering"
         ELSE IF Get(acc.nkl, i) # Get(deg, i)                  THEN "left-before-all-children"
         ELSE IF Len(cs) # Get(deg, i) \/ ~Distinct(cs)         THEN "not-the-childrens-values"
         ELSE IF \E k \in DOMAIN cs : cs[k] < 1 \/ cs[k] > 2 * Len(P) + 1 \/ Get(acc.owner, cs[k]) = -1 \/ Par(P, Get(acc.owner, cs[k])) # i
                                                                THEN "not-the-childrens-values"
         ELSE IF e[4] < 1 \/ e[4] > 2 * Len(P) + 1             THEN "MACHINERY-token-out-of-range"
         ELSE ""
    ELSE IF e[1] = "R" THEN
         IF acc.ne # Len(P)                                     THEN "some-node-never-entered"
         ELSE IF acc.nl # Len(P)                                THEN "some-node-never-left"
         ELSE IF e[2] # Get(acc.lout, 0)                        THEN "returned-value-is-not-the-start-nodes"
         ELSE ""
    ELSE "unknown-event"

Step(P, deg, acc, e) ==
    IF acc.why # "" THEN acc
    ELSE LET w == StepWhy(P, deg, acc, e) IN
         IF w # "" THEN [acc EXCEPT !.why = w]
         ELSE IF e[1] = "E" THEN [acc EXCEPT !.ent = Set(@, e[2], 1), !.vout = Set(@, e[2], e[4]), !.ne = @ + 1]
         ELSE IF e[1] = "L" THEN [acc EXCEPT !.lft = Set(@, e[2], 1), !.lout = Set(@, e[2], e[4]), !.owner = Set(@, e[4], e[2]), !.nl = @ + 1,
                                             !.nkl = IF Par(P, e[2]) = -1 THEN @ ELSE Set(@, Par(P, e[2]), Get(@, Par(P, e[2])) + 1)]
         ELSE [acc EXCEPT !.ret = 1]

\* verdict on a whole trace: "" or the first violated clause
BigWhy(P, events) ==
    LET deg == Degrees(P)
        fin == FoldLeft(LAMBDA a, e : Step(P, deg, a, e), Acc0(P), events) IN
    IF fin.why # "" THEN fin.why ELSE IF fin.ret # 1 THEN "no-return-event" ELSE ""
=============================================================================
