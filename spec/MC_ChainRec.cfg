CONSTANT MaxN = 6
CONSTANT NoVal <- MinusOne
INIT Init
NEXT Next
INVARIANT NoChoice
