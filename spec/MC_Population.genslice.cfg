CONSTANTS MaxSteps = 4 MaxObjs = 5 Emit = TRUE Wide = FALSE Only = {"from_swc", "slice", "index", "iter"}
INIT Init
NEXT Next
INVARIANT EmitHist
