----------------------------- MODULE Gen_VolTree -----------------------------
(* C14: the per-compartment identity (TLC, exact) and the cases for the executor *)
EXTENDS VolTree, SequencesExt, Json, IOUtils
CONSTANTS RMax, Extra, NMax
Rs == 1 .. RMax
Segs == { <<a, b, l>> \in Rs \X Rs \X (1 .. RMax + Extra) : l >= a /\ l >= b }
\* what the sweep adds per compartment is the exact union, for tangent, overlapping and disjoint neighbours alike
ASSUME \A s \in Segs : CSeg(R(s[1]), R(s[2]), R(s[3])) = TSeg(R(s[1]), R(s[2]), R(s[3]))
ASSUME \E s \in Segs : s[1] + s[2] > s[3] /\ s[1] # s[2]                  \* overlapping neighbours with unequal radii are in the domain
ASSUME \E s \in Segs : s[1] + s[2] = s[3]                                 \* tangent (the only case the pinned suite has)
\* collinear trees: chains (root at one end) and roots with one arm on either side
Gaps(a, b) == { l \in 1 .. RMax + Extra : l >= a /\ l >= b }
RECURSIVE Chains(_)
Chains(n) == IF n = 1 THEN { << <<-1, 0, r>> >> : r \in Rs }
             ELSE UNION { { Append(c, <<Len(c) - 1, c[Len(c)][2] + l, r>>) : r \in Rs, l \in 1 .. RMax + Extra } : c \in { x \in Chains(n - 1) : Admissible(x) } }
ValidT(t) == Admissible(t)
ChainsOK(n) == { c \in Chains(n) : ValidT(c) }
\* two arms: left arm nodes then right arm nodes
TwoArms == { << <<-1, 0, r0>>, <<0, -l1, r1>>, <<0, l2, r2>> >> : r0 \in Rs, r1 \in Rs, r2 \in Rs, l1 \in 1 .. RMax + Extra, l2 \in 1 .. RMax + Extra }
TwoArms4 == { Append(t, <<2, t[3][2] + l3, r3>>) : t \in { x \in TwoArms : x[1][3] # x[2][3] }, r3 \in Rs, l3 \in 1 .. RMax + Extra }
Collinear == UNION { ChainsOK(n) : n \in 1 .. NMax } \cup { t \in TwoArms : ValidT(t) } \cup { t \in TwoArms4 : ValidT(t) /\ NMax >= 4 }
CollSeq == SetToSeq(Collinear)
LevelsOf(j) == <<1, 2, 3, 4, 3, 4, 3>>[(j % 7) + 1]
CollCases == [j \in 1 .. Len(CollSeq) |-> [kind |-> "collinear", t |-> CollSeq[j], level |-> LevelsOf(j), parts |-> Expected(CollSeq[j], LevelsOf(j)),
                                           place |-> j % 7, unit |-> (j \div 7) % 3]]
VARIABLE done
Init == done = ndJsonSerialize(IOEnv.OUT, [j \in 1 .. Len(CollCases) |-> [cid |-> j] @@ CollCases[j]])
Next == FALSE /\ UNCHANGED done
Emitted == done => PrintT(<<"CASES", Len(CollCases)>>)
=============================================================================
