---------------------------- MODULE Trace_Views ----------------------------
(***************************************************************************)
(* Trace validation for C09: the executor performs a history of view /     *)
(* write / copy / detach operations on real objects and, after every step, *)
(* reads back EVERYTHING every live tree and view reports.  TLC applies    *)
(* the same action to the Views state and compares the two reports.        *)
(***************************************************************************)
EXTENDS Views, Json, IOUtils
Cases == ndJsonDeserialize(IOEnv.CASES)
Obs   == ndJsonDeserialize(IOEnv.OBS)
VARIABLES ci, k, s, bad
Init == ci = 1 /\ k = 0 /\ s = S0(Cases[Obs[1].cid].P) /\ bad = <<>>
NextCase == ci' = ci + 1 /\ k' = 0 /\ s' = IF ci + 1 <= Len(Obs) THEN S0(Cases[Obs[ci + 1].cid].P) ELSE s
Fail(o, w) == bad' = Append(bad, <<o.cid, w>>) /\ NextCase

\* normalise the TLA+ action record from its JSON form (strings / ints only, so nothing to do but field access)
ViewWhy(exp, got, kind) ==
    IF got.x # exp.x THEN "view-x-values"
    ELSE IF got.ty # exp.ty THEN "view-type-values"
    ELSE IF kind # "det" /\ got.id # exp.id THEN "view-node-ids"
    ELSE IF got.idxok # 1 THEN "view-indexing"
    ELSE ""
StepWhy(P, s2, act, ob) ==
    LET rep == Report(P, s2) IN
    IF act.a = "index_error" THEN (IF ob.exc = "IndexError" THEN "" ELSE "out-of-range-index-accepted")
    ELSE IF ob.exc # "" THEN "raised-" \o ob.exc
    ELSE IF Len(ob.trees) # Len(rep.trees) \/ Len(ob.views) # Len(rep.views) THEN "object-count"
    ELSE IF \E t \in DOMAIN rep.trees : ob.trees[t].x # rep.trees[t].x \/ ob.trees[t].ty # rep.trees[t].ty \/ ob.trees[t].e # rep.trees[t].e
         THEN (IF act.a = "write" THEN "write-not-visible-in-owner-or-leaked" ELSE "tree-content-changed")
    ELSE IF \E t \in DOMAIN rep.trees : \E i \in Nodes(P) :
              LET nv == ob.trees[t].nav[i + 1] IN                      \* what the handle of node i reports: <<parent id, the parent handle's x, children ids, x by column name>>
              \/ nv[1] # Par(P, i)
              \/ (Par(P, i) # -1 /\ nv[2] # rep.trees[t].x[Par(P, i) + 1])
              \/ { nv[3][q] : q \in DOMAIN nv[3] } # Kids(P, i) \/ Len(nv[3]) # Cardinality(Kids(P, i))
              \/ nv[4] # rep.trees[t].x[i + 1]
         THEN "node-parent-children" \o (IF act.a = "write" THEN "-after-write" ELSE "")
    ELSE LET ws == { ViewWhy(rep.views[v], ob.views[v], s2.views[v].kind) : v \in DOMAIN rep.views } \ {""} IN
         IF ws # {} THEN (CHOOSE w \in ws : TRUE) \o (IF act.a = "write" THEN "-after-write" ELSE "")
         ELSE IF \E v \in DOMAIN s2.views : s2.views[v].kind = "branch" /\ ob.views[v].segs # BranchSegs(s2.views[v].idx) THEN "branch-segments"
         ELSE ""
Step == /\ ci <= Len(Obs)
        /\ LET o == Obs[ci]
               c == Cases[o.cid] IN
           IF k < Len(c.hist) THEN
                LET act == c.hist[k + 1]
                    s2  == Do(c.P, s, act)
                    w   == StepWhy(c.P, s2, act, o.steps[k + 1]) IN
                IF w # "" THEN Fail(o, act.a \o ":" \o w)
                ELSE s' = s2 /\ k' = k + 1 /\ ci' = ci /\ bad' = bad
           ELSE IF o.treesegs # TreeSegs(c.P) THEN Fail(o, "tree-segments")
           ELSE IF { <<e[1], e[2]>> : e \in { o.adj[j] : j \in DOMAIN o.adj } } # { <<Par(c.P, q), q>> : q \in 1 .. Len(c.P) - 1 } \/ Len(o.adj) # Len(c.P) - 1
                THEN Fail(o, "adjacency-matrix")
           \* last stage of every history: a node of the first tree is re-parented in place through its handle (an admissible edit, SwcBase.Reparent);
           \* the tree's segments, its adjacency matrix and what its node handles report are then those of the edited parent table
           ELSE IF Len(o.edit) = 2 /\ (LET i == o.edit[1]  j == o.edit[2]  P2 == Reparent(c.P, i, j) IN
                     \/ ~ReparentOK(c.P, i, j)
                     \/ o.treesegs2 # TreeSegs(P2)
                     \/ { <<e[1], e[2]>> : e \in { o.adj2[q] : q \in DOMAIN o.adj2 } } # { <<Par(P2, q), q>> : q \in 1 .. Len(P2) - 1 }
                     \/ \E q \in Nodes(P2) : o.nav2[q + 1][1] # Par(P2, q) \/ { o.nav2[q + 1][3][m] : m \in DOMAIN o.nav2[q + 1][3] } # Kids(P2, q))
                THEN Fail(o, "tree-segments-after-reparenting")
           ELSE bad' = bad /\ NextCase
Next == Step
Verdict == ci = Len(Obs) + 1 => PrintT(<<"VERDICT", Len(Obs), bad>>)
=============================================================================
