INIT Init
NEXT Next
INVARIANT Verdict
