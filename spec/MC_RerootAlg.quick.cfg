CONSTANT MaxN = 6
INIT Init
NEXT Next
INVARIANT SameUEdges
INVARIANT OneRoot
INVARIANT AllReach
INVARIANT Involution
