------------------------------ MODULE VolTree ------------------------------
(***************************************************************************)
(* C14 — volume of a tree = volume of the union of one ball per node and   *)
(* one frustum per parent-child pair (units of pi, exact rationals).       *)
(*                                                                         *)
(* For a tree laid out on a straight line the union is a solid of          *)
(* revolution; along the compartment between node A (x = 0, radius rA) and *)
(* node B (x = L, radius rB) its cross-section radius squared is           *)
(*      max( (rA + k x)^2 , rA^2 - x^2 , rB^2 - (L - x)^2 ),  k = (rB-rA)/L*)
(* TSeg integrates that maximum exactly: the breakpoints (where two of the *)
(* three profiles cross) are rational; on every piece the profile that is  *)
(* largest at the midpoint is integrated through its primitive.  Under the *)
(* premise (L >= rA, L >= rB) each ball stays within its adjacent          *)
(* compartments, so the union is the sum of TSeg over the compartments     *)
(* plus one half ball at every free end.                                   *)
(* CSeg is what the code's per-node sweep contributes for the compartment  *)
(* at accuracy >= 3: both half balls + frustum - (ball A n frustum)        *)
(* - (ball B n frustum).                                                   *)
(***************************************************************************)
EXTENDS VolPrim

RECURSIVE SortR(_)
SortR(S) == IF S = {} THEN <<>> ELSE LET m == CHOOSE x \in S : \A y \in S : RLe(x, y) IN <<m>> \o SortR(S \ {m})
Half(r) == RMul(Q(2, 3), RCube(r))
TSeg(rA, rB, L) ==
    LET k   == RDiv(RSub(rB, rA), L)
        f1(x) == RSq(RAdd(rA, RMul(k, x)))                          \* frustum
        f2(x) == RSub(RSq(rA), RSq(x))                              \* ball A
        f3(x) == RSub(RSq(rB), RSq(RSub(L, x)))                     \* ball B
        xA  == RDiv(RMul(R(-2), RMul(rA, k)), RAdd(RSq(k), One))    \* frustum = ball A
        xB  == RSub(L, RDiv(RMul(R(2), RMul(rB, k)), RAdd(RSq(k), One)))          \* frustum = ball B
        x0  == RDiv(RAdd(RSq(L), RSub(RSq(rA), RSq(rB))), RMul(R(2), L))           \* ball A = ball B
        inside(x) == RLt(Zero, x) /\ RLt(x, L)
        bps == SortR({Zero, L} \cup { x \in {xA, xB, x0} : inside(x) })
        I1(a, b) == RSub(ConeSlab(rA, k, b), ConeSlab(rA, k, a))
        I2(a, b) == SphereSlab(rA, a, b)
        I3(a, b) == SphereSlab(rB, RSub(L, b), RSub(L, a))
        piece(a, b) == LET m == RMul(Q(1, 2), RAdd(a, b)) IN
                       IF RLe(f2(m), f1(m)) /\ RLe(f3(m), f1(m)) THEN I1(a, b)
                       ELSE IF RLe(f3(m), f2(m)) THEN I2(a, b) ELSE I3(a, b)
        RECURSIVE Acc(_)
        Acc(j) == IF j >= Len(bps) THEN Zero ELSE RAdd(piece(bps[j], bps[j + 1]), Acc(j + 1)) IN
    Acc(1)
CSeg(rA, rB, L) == RSub(RSub(RAdd(RAdd(Half(rA), Half(rB)), CFrustum(rA, rB, L)), CSphFru(rA, rB, L)), CSphFru(rB, rA, L))
\* the half balls are inside the union; what the compartment adds to them
Premise(rA, rB, L) == RLe(rA, L) /\ RLe(rB, L)

\* ---- trees: a collinear tree is a sequence of nodes <<parent (0-based, -1 root), position on the line, radius>> ----
NodesOf(t) == 1 .. Len(t)
Edges(t) == { j \in NodesOf(t) : t[j][1] # -1 }
EdgeLen(t, j) == AbsI(t[j][2] - t[t[j][1] + 1][2])
\* every node's two sides: a free side contributes half a ball
Sides(t, j) == { s \in {-1, 1} : \E e \in NodesOf(t) : (t[e][1] = j - 1 /\ (t[e][2] - t[j][2]) * s > 0) \/ (e = j /\ t[j][1] # -1 /\ (t[t[j][1] + 1][2] - t[j][2]) * s > 0) }
FreeSides(t, j) == 2 - Cardinality(Sides(t, j))
Admissible(t) == /\ \A j \in Edges(t) : EdgeLen(t, j) >= t[j][3] /\ EdgeLen(t, j) >= t[t[j][1] + 1][3]
                 /\ \A j \in NodesOf(t) : \A s \in {-1, 1} :
                       Cardinality({ e \in NodesOf(t) : (t[e][1] = j - 1 /\ (t[e][2] - t[j][2]) * s > 0) \/ (e = j /\ t[j][1] # -1 /\ (t[t[j][1] + 1][2] - t[j][2]) * s > 0) }) <= 1
\* parts of the volume as a bag of exact rationals (they are summed by the executor in floating point)
PartsSpheres(t)  == [j \in NodesOf(t) |-> CSphere(R(t[j][3]))]
EdgeSeq(t)       == SortR({ R(j) : j \in Edges(t) })
PartsFrusta(t)   == [e \in 1 .. Len(EdgeSeq(t)) |-> LET j == EdgeSeq(t)[e][1] IN CFrustum(R(t[t[j][1] + 1][3]), R(t[j][3]), R(EdgeLen(t, j)))]
PartsUnion(t)    == [e \in 1 .. Len(EdgeSeq(t)) |-> LET j == EdgeSeq(t)[e][1] IN TSeg(R(t[t[j][1] + 1][3]), R(t[j][3]), R(EdgeLen(t, j)))]
                    \o [j \in NodesOf(t) |-> RMul(R(FreeSides(t, j)), Half(R(t[j][3])))]
Expected(t, level) == IF level = 1 THEN PartsSpheres(t) ELSE IF level = 2 THEN PartsSpheres(t) \o PartsFrusta(t) ELSE PartsUnion(t)
=============================================================================
