CONSTANTS MaxN = 6  MaxNHeavy = 5
INIT Init
NEXT Next
INVARIANT Emitted
