----------------------------- MODULE StructRec -----------------------------
(***************************************************************************)
(* C04 — tree traversal is structural recursion.                           *)
(* Property layer: what any traversal of the subtree at `start` may do, as *)
(* a transition system over *events*:                                      *)
(*    Enter(i, pin, v)  the enter callback ran on node i, was handed pin   *)
(*                      (NoVal for "nothing") and returned v               *)
(*    Leave(i, cs, v)   the leave callback ran on node i, was handed the   *)
(*                      sequence cs of values and returned v               *)
(*    Return(v)         the traversal returned v                           *)
(* Callback return values are opaque tokens (the callbacks are arbitrary); *)
(* the specification only talks about how they are plumbed.                *)
(* Nothing here mentions a stack or an order among siblings.               *)
(***************************************************************************)
EXTENDS SwcBase, Bags
CONSTANT NoVal              \* the value standing for "nothing" (None)

HasEnter(mode) == mode \in {"enter", "both"}
HasLeave(mode) == mode \in {"leave", "both"}
BagOfSeq(s) == LET R == Range(s) IN [x \in R |-> Cardinality({ k \in DOMAIN s : s[k] = x })]

\* state: entered, left : sets of nodes;  vout, lout : node -> value returned by its enter / leave call
\* Each operator returns "" when the event is allowed in the state, else the name of the violated clause.
EnterWhy(P, start, mode, entered, left, vout, i, pin) ==
    IF ~HasEnter(mode)                                   THEN "enter-callback-not-supplied"
    ELSE IF i \notin Desc(P, start)                      THEN "visited-node-outside-subtree"
    ELSE IF i \in entered                                THEN "entered-twice"
    ELSE IF i \in left                                   THEN "entered-after-leaving"
    ELSE IF i = start /\ pin # NoVal                     THEN "start-node-was-handed-a-value"
    ELSE IF i # start /\ Par(P, i) \notin entered        THEN "entered-before-parent"
    ELSE IF i # start /\ pin # vout[Par(P, i)]           THEN "not-the-parents-value"
    ELSE ""

LeaveWhy(P, start, mode, entered, left, lout, i, cs) ==
    IF ~HasLeave(mode)                                   THEN "leave-callback-not-supplied"
    ELSE IF i \notin Desc(P, start)                      THEN "visited-node-outside-subtree"
    ELSE IF i \in left                                   THEN "left-twice"
    ELSE IF HasEnter(mode) /\ i \notin entered           THEN "left-before-entering"
    ELSE IF ~(Kids(P, i) \subseteq left)                 THEN "left-before-all-children"
    ELSE IF BagOfSeq(cs) # BagOfSeq([k \in 1 .. Cardinality(Kids(P, i)) |-> lout[SetToSeqKids(P, i)[k]]]) THEN "not-the-childrens-values"
    ELSE ""

ReturnWhy(P, start, mode, entered, left, lout, v) ==
    IF HasEnter(mode) /\ entered # Desc(P, start)        THEN "some-node-never-entered"
    ELSE IF HasLeave(mode) /\ left # Desc(P, start)      THEN "some-node-never-left"
    ELSE IF HasLeave(mode) /\ v # lout[start]            THEN "returned-value-is-not-the-start-nodes"
    ELSE IF ~HasLeave(mode) /\ v # NoVal                 THEN "returned-a-value-without-leave-callback"
    ELSE ""
=============================================================================
