------------------------------ MODULE Resample ------------------------------
(***************************************************************************)
(* C16 — resampling and smoothing, in exact rational arithmetic.           *)
(* A tree is (P, pos, rad) with integer positions and radii whose segments *)
(* are axis-parallel (or of length zero), so that arc length along every   *)
(* branch is an integer and every resampled point is a rational point of   *)
(* the original polyline.                                                  *)
(***************************************************************************)
EXTENDS Decomp, Rat

\* segment lengths are integers: axis-parallel steps, or steps like <<3, 4, 0>> whose squared length is a perfect square (the straight edges of a
\* branch tree made from a tree with 3-4-5 bends)
D2s(pos, a, b) == (pos[a + 1][1] - pos[b + 1][1]) * (pos[a + 1][1] - pos[b + 1][1]) + (pos[a + 1][2] - pos[b + 1][2]) * (pos[a + 1][2] - pos[b + 1][2])
                  + (pos[a + 1][3] - pos[b + 1][3]) * (pos[a + 1][3] - pos[b + 1][3])
RECURSIVE NewtonR(_, _)
NewtonR(n, x) == LET y == (x + n \div x) \div 2 IN IF y >= x THEN x ELSE NewtonR(n, y)
SegLen(pos, a, b) == LET n == D2s(pos, a, b) IN IF n = 0 THEN 0 ELSE NewtonR(n, n)
AxisOK(P, pos) == \A i \in Nodes(P) \ {0} : LET l == SegLen(pos, i, Par(P, i)) IN l * l = D2s(pos, i, Par(P, i))
\* cumulative arc length along the node sequence b
RECURSIVE Cum(_, _, _)
Cum(pos, b, k) == IF k = 1 THEN 0 ELSE Cum(pos, b, k - 1) + SegLen(pos, b[k - 1], b[k])
TotalLen(pos, b) == Cum(pos, b, Len(b))
\* the point <<x, y, z, r>> (rationals) at arc length a (a rational, 0 <= a <= total) on the polyline through b
PointAt(pos, rad, b, a) ==
    IF Len(b) = 1 \/ TotalLen(pos, b) = 0 THEN <<R(pos[b[1] + 1][1]), R(pos[b[1] + 1][2]), R(pos[b[1] + 1][3]), R(rad[b[1] + 1])>>
    ELSE LET j == CHOOSE j \in 2 .. Len(b) : Cum(pos, b, j) > Cum(pos, b, j - 1) /\ RLe(R(Cum(pos, b, j - 1)), a) /\ RLe(a, R(Cum(pos, b, j)))
             t == RDiv(RSub(a, R(Cum(pos, b, j - 1))), R(Cum(pos, b, j) - Cum(pos, b, j - 1)))
             mix(u, v) == RAdd(R(u), RMul(t, R(v - u))) IN
         <<mix(pos[b[j - 1] + 1][1], pos[b[j] + 1][1]), mix(pos[b[j - 1] + 1][2], pos[b[j] + 1][2]), mix(pos[b[j - 1] + 1][3], pos[b[j] + 1][3]), mix(rad[b[j - 1] + 1], rad[b[j] + 1])>>
CeilDiv(n, d) == (n + d - 1) \div d
\* number of points of a branch of integer length L resampled at spacing p/q:  ceil(L / (p/q)) + 1
NPoints(L, sp) == CeilDiv(L * sp[2], sp[1]) + 1
\* isometric resampling of the polyline b at spacing sp: equal steps (adjust = TRUE), or steps of exactly sp and a shorter last one
IsoPoints(pos, rad, b, sp, adjust) ==
    LET L == TotalLen(pos, b)  m == NPoints(L, sp) IN
    IF m = 1 THEN << PointAt(pos, rad, b, Zero) >>
    ELSE [k \in 1 .. m |-> PointAt(pos, rad, b, IF adjust THEN Q((k - 1) * L, m - 1) ELSE RMin(RMul(R(k - 1), Q(sp[1], sp[2])), R(L)))]
LinearPoints(pos, rad, b, n) == [k \in 1 .. n |-> PointAt(pos, rad, b, Q((k - 1) * TotalLen(pos, b), n - 1))]
\* the resampled tree as a set of chains, one per original branch (start and end are the original critical nodes)
IsoTree(P, pos, rad, sp, adjust) == { IsoPoints(pos, rad, b, sp, adjust) : b \in BranchSet(P) }
SameTree(P, pos, rad) == { [k \in 1 .. Len(b) |-> <<R(pos[b[k] + 1][1]), R(pos[b[k] + 1][2]), R(pos[b[k] + 1][3]), R(rad[b[k] + 1])>>] : b \in BranchSet(P) }
\* no two critical nodes coincide (otherwise "the same connectivity between them" cannot be read off positions)
CriticalsDistinct(P, pos) == \A a, b \in Critical(P) : a # b => pos[a + 1] # pos[b + 1]

\* ... except sibling tips: two branches that leave the same furcation (or the root) may end in tips at the same position; which end point
\* belongs to which branch is then still determined by the branches themselves
SiblingTips(P, a, b) == a \in Tips(P) /\ b \in Tips(P) /\ BTParent(P, a) = BTParent(P, b)
CriticalsOK(P, pos) == \A a, b \in Critical(P) : a # b /\ pos[a + 1] = pos[b + 1] => SiblingTips(P, a, b)
\* a tree as a set of <<chain of the branch, chain of the branch it continues>> pairs (<<>> for branches that start at the root)
PairsOf(P, F(_)) == { <<F(b), IF b[1] = 0 THEN <<>> ELSE F(CHOOSE d \in BranchSet(P) : d[Len(d)] = b[1])>> : b \in BranchSet(P) }
IsoPairs(P, pos, rad, sp, adjust) == LET F(b) == IsoPoints(pos, rad, b, sp, adjust) IN PairsOf(P, F)
SamePairs(P, pos, rad) == LET F(b) == [k \in 1 .. Len(b) |-> <<R(pos[b[k] + 1][1]), R(pos[b[k] + 1][2]), R(pos[b[k] + 1][3]), R(rad[b[k] + 1])>>] IN PairsOf(P, F)
ObsPairs(rp, pts) == LET F(b) == [k \in 1 .. Len(b) |-> pts[b[k] + 1]] IN PairsOf(rp, F)

\* observed chains: each a sequence of <<x, y, z, r>> integers in units of 10^-4
ClosePt(o, e) == \A k \in 1 .. 4 : AbsI(o[k] * e[k][2] - e[k][1] * 10000) <= 4 * e[k][2]
CloseChain(oc, ec) == Len(oc) = Len(ec) /\ \A k \in 1 .. Len(ec) : ClosePt(oc[k], ec[k])
ChainsMatch(obs, exp) == /\ Cardinality(obs) = Cardinality(exp)
                         /\ \A ec \in exp : \E oc \in obs : CloseChain(oc, ec)
                         /\ \A oc \in obs : \E ec \in exp : CloseChain(oc, ec)
ClosePair(o, e) == CloseChain(o[1], e[1]) /\ ((o[2] = <<>> /\ e[2] = <<>>) \/ (o[2] # <<>> /\ e[2] # <<>> /\ CloseChain(o[2], e[2])))
PairsMatch(obs, exp) == (\A e \in exp : \E o \in obs : ClosePair(o, e)) /\ (\A o \in obs : \E e \in exp : ClosePair(o, e))
\* chains of an observed tree given by its parent vector and its points
ObsChains(rp, pts) == { [k \in 1 .. Len(b) |-> pts[b[k] + 1]] : b \in BranchSet(rp) }
=============================================================================
