CONSTANTS MaxPts = 5 MaxDepth = 2 MaxAlts = 3 MaxMark = 0 Emit = TRUE Fixed = "asis" LeadingEmpty = TRUE
SPECIFICATION Spec
INVARIANT EmitDoc
