CONSTANT MaxN = 5
SPECIFICATION Spec
INVARIANT Refines
INVARIANT OnlyMarkDown
PROPERTY Terminates
