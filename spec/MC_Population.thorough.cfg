CONSTANTS MaxSteps = 5 MaxObjs = 7 Emit = FALSE Wide = TRUE Only = {}
INIT Init
NEXT Next
INVARIANT IndexRight
INVARIANT LazyInv
PROPERTY OnlyOnDemandStep
