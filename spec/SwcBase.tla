------------------------------ MODULE SwcBase ------------------------------
(***************************************************************************)
(* Shared vocabulary for every swcgeom specification.                      *)
(*                                                                         *)
(* A *topology* is a sequence P of parent ids: node i (0-based, as in the  *)
(* library) has parent P[i+1]; -1 means "no parent".  Sequences (not       *)
(* functions on 0..n-1) are used so that values cross the JSON boundary    *)
(* unchanged (JSON array <-> TLA+ tuple).                                  *)
(***************************************************************************)
EXTENDS Integers, Sequences, FiniteSets, TLC

Nodes(P)    == 0 .. Len(P) - 1
Par(P, i)   == P[i + 1]
Kids(P, i)  == { j \in Nodes(P) : Par(P, j) = i }
Roots(P)    == { i \in Nodes(P) : Par(P, i) = -1 }

RECURSIVE UpK(_, _, _)
UpK(P, i, k) == IF i \notin Nodes(P) \/ k = 0 THEN {} ELSE {i} \cup UpK(P, Par(P, i), k - 1)
Anc(P, i)   == UpK(P, i, Len(P))                      \* i and everything above it (bounded: safe on cyclic tables)
SAnc(P, i)  == IF Par(P, i) \in Nodes(P) THEN UpK(P, Par(P, i), Len(P)) ELSE {}   \* strict ancestors
Desc(P, i)  == { j \in Nodes(P) : i \in Anc(P, j) }   \* i and everything below it

RECURSIVE Depth(_, _)
Depth(P, i) == IF Par(P, i) = -1 THEN 0 ELSE 1 + Depth(P, Par(P, i))

\* well-formed tree as the library means it: ids = positions, node 0 the only root, everything reaches it
\* (reachability by pointer jumping, so that trees of thousands of nodes do not need deep recursion)
RECURSIVE JumpK(_, _)
JumpK(f, k) == IF k = 0 THEN f ELSE JumpK([i \in DOMAIN f |-> f[f[i]]], k - 1)
RECURSIVE Log2Up(_)
Log2Up(n)   == IF n <= 1 THEN 0 ELSE 1 + Log2Up((n + 1) \div 2)
TopAnc(P)   == JumpK([i \in Nodes(P) |-> IF Par(P, i) \in Nodes(P) THEN Par(P, i) ELSE i], Log2Up(Len(P)) + 1)   \* i |-> where i's parent chain ends
WF(P)       == /\ Len(P) >= 1
               /\ P[1] = -1
               /\ \A i \in 1 .. Len(P) - 1 : Par(P, i) \in Nodes(P)
               /\ \/ \A i \in 1 .. Len(P) - 1 : Par(P, i) < i                   \* parents first: every chain descends to node 0 (linear; decides the large sorted results)
                  \/ LET top == TopAnc(P) IN \A i \in Nodes(P) : top[i] = 0
Sorted(P)   == \A i \in 1 .. Len(P) - 1 : Par(P, i) < i

IsTip(P, i)  == Kids(P, i) = {}
IsFurc(P, i) == Cardinality(Kids(P, i)) >= 2
Tips(P)      == { i \in Nodes(P) : IsTip(P, i) }
Furcs(P)     == { i \in Nodes(P) : IsFurc(P, i) }
UEdges(P)    == { {i, Par(P, i)} : i \in { j \in Nodes(P) : Par(P, j) # -1 } }

\* all well-formed topologies on n nodes: every numbering with the root at 0
Topos(n)    == { P \in [1 .. n -> -1 .. n - 1] : WF(P) }
\* ... with parents before children
SortedTopos(n) == { P \in [1 .. n -> -1 .. n - 1] : P[1] = -1 /\ \A i \in 2 .. n : P[i] >= 0 /\ P[i] < i - 1 }

\* in-place re-parenting through a node handle (t.node(i).pid = j): the edit that keeps a well-formed tree well-formed.
\* Histories "query, edit in place, query again" are generated from these (a result remembered across the edit is then visible).
Reparent(P, i, j)   == [P EXCEPT ![i + 1] = j]
ReparentOK(P, i, j) == i \in Nodes(P) /\ i # 0 /\ j \in Nodes(P) /\ j \notin Desc(P, i) /\ j # Par(P, i)
Edits(P)            == { e \in Nodes(P) \X Nodes(P) : ReparentOK(P, e[1], e[2]) }

Range(s)    == { s[k] : k \in DOMAIN s }
Injective(s) == \A a, b \in DOMAIN s : s[a] = s[b] => a = b
\* position (0-based) of value v in sequence s; -1 if absent
PosOf(s, v) == IF \E k \in DOMAIN s : s[k] = v THEN (CHOOSE k \in DOMAIN s : s[k] = v) - 1 ELSE -1

RECURSIVE SeqOfSet(_)
SeqOfSet(S) == IF S = {} THEN <<>> ELSE LET x == CHOOSE x \in S : \A y \in S : x <= y IN <<x>> \o SeqOfSet(S \ {x})   \* ascending
SetToSeqKids(P, i) == SeqOfSet(Kids(P, i))

RECURSIVE SumSeq(_)
SumSeq(s)   == IF s = <<>> THEN 0 ELSE Head(s) + SumSeq(Tail(s))
RECURSIVE SumOver(_, _)                                \* sum of f[x] for x in S (f a function)
SumOver(S, f) == IF S = {} THEN 0 ELSE LET x == CHOOSE x \in S : TRUE IN f[x] + SumOver(S \ {x}, f)

\* the rooted, attributed tree "keyed by old id": what an operation must preserve, numbering-free.
\* attr is a sequence of per-node attribute tuples (same indexing as P).
Abs(v) == IF v < 0 THEN -v ELSE v
Min(a, b) == IF a < b THEN a ELSE b
Max(a, b) == IF a > b THEN a ELSE b
=============================================================================
