CONSTANTS P0 <- PZ  MaxSteps = 5 Emit = FALSE MaxTrees = 2 MaxViews = 3 Focus = FALSE
INIT Init
NEXT Next
INVARIANT WindowFollows
PROPERTY DetachedFrozen
PROPERTY WriteLocal
