---------------------------- MODULE Gen_TreeOps ----------------------------
(***************************************************************************)
(* Generator for C03: pipelines of operation instances.  An instance is    *)
(* <<op, a, b>> where a, b are *selectors*: the executor resolves a node   *)
(* argument as (selector mod current size), a second source as (selector   *)
(* mod number of usable objects) — i.e. selectors range over "all          *)
(* admissible arguments" without the generator having to predict sizes.    *)
(* Exhaustive: every pipeline of length PipeLen over Inst on every start     *)
(* tree; random: N pipelines of length LongDepth (TLC's RandomElement).    *)
(***************************************************************************)
EXTENDS SwcBase, SequencesExt, Json, IOUtils
CONSTANTS PipeLen, StartN, NRandom, LongDepth, SingleN
Sel == 0 .. 2
Inst == { <<"sort", 0, 0>>, <<"io", 0, 0>>, <<"io_sorted", 0, 0>>, <<"translate_origin", 0, 0>>, <<"normalize", 0, 0>>, <<"radius_reset", 0, 0>>,
          <<"translate", 0, 0>>, <<"scale", 0, 0>>, <<"scale", 1, 0>>, <<"rot90z", 0, 0>>, <<"rotate", 1, 0>>, <<"smooth", 3, 0>>, <<"smooth", 5, 0>>,
          <<"resample", 0, 0>>, <<"resample", 1, 0>>, <<"cut_type", 2, 0>>, <<"cut_type", 3, 0>>, <<"cut_order", 1, 0>>, <<"cut_order", 2, 0>>,
          <<"cut_shorttip", 1, 0>>, <<"compose", 0, 0>>, <<"branch_tree", 0, 0>> }
        \cup { <<"subtree", a, 0>> : a \in Sel } \cup { <<"remove", a, b>> : a \in Sel, b \in Sel } \cup { <<"cut_enter", a, 0>> : a \in 1 .. 2 }
        \cup { <<"redirect_sorted", a, 0>> : a \in Sel } \cup { <<"redirect_unsorted", a, 0>> : a \in Sel }
        \cup { <<"cat", a, b>> : a \in Sel, b \in 0 .. 1 } \cup { <<"cat_notranslate", a, 0>> : a \in 0 .. 1 }
Starts == UNION { Topos(n) : n \in StartN }
RECURSIVE Pipes(_)
Pipes(k) == IF k = 0 THEN { <<>> } ELSE { Append(p, i) : p \in Pipes(k - 1), i \in Inst }
Exh  == { [P |-> P, pipe |-> p] : P \in Starts, p \in Pipes(PipeLen) }
\* every single operation instance on every topology of SingleN nodes under every numbering (children numbered before their parents, before their grandparents, ...)
Exh1 == { [P |-> P, pipe |-> <<i>>] : P \in UNION { Topos(n) : n \in SingleN }, i \in Inst }
Big  == << <<-1, 0, 1, 1, 3, 3, 0, 6>>, <<-1, 3, 0, 0, 3, 4>>, <<-1, 0, 1, 2, 3>>, <<-1, 0, 0, 0, 1, 1, 2>>,
           <<-1, 4, 0, 0, 3, 1>>, <<-1, 2, 3, 4, 0>>, <<-1, 5, 1, 0, 3, 4, 2>>, <<-1, 6, 6, 0, 3, 3, 4>> >>
ASSUME \A k \in 1 .. Len(Big) : WF(Big[k])
Rnd  == { [P |-> Big[1 + (k % Len(Big))], pipe |-> [j \in 1 .. LongDepth |-> RandomElement(Inst)], k |-> k] : k \in 1 .. NRandom }
AllSeq   == SetToSeq(Exh) \o SetToSeq(Exh1) \o SetToSeq(Rnd)
Numbered == [k \in 1 .. Len(AllSeq) |-> [cid |-> k] @@ AllSeq[k]]
VARIABLE done
Init == done = ndJsonSerialize(IOEnv.OUT, Numbered)
Next == FALSE /\ UNCHANGED done
Emitted == done => PrintT(<<"CASES", Len(AllSeq), Cardinality(Inst)>>)
=============================================================================
