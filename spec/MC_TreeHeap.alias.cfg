CONSTANTS MaxObjs = 3 AllowAlias = TRUE AllowInPlace = FALSE
SPECIFICATION Spec
INVARIANT AllWF
INVARIANT NoSharing
PROPERTY Pure
PROPERTY Isolation
