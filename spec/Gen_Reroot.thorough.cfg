CONSTANTS MaxN = 6 MaxN1 = 4 MaxN2 = 4 MaxNS = 5
INIT Init
NEXT Next
INVARIANT Emitted
