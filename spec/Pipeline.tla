------------------------------ MODULE Pipeline ------------------------------
(***************************************************************************)
(* X01 (beyond the listed properties) — swcgeom.transforms.base:           *)
(* Transforms(...) is sequential composition.                              *)
(*                                                                         *)
(* A primitive transform is a record [op, k] acting on integers; an        *)
(* expression is either a primitive or a composition node                  *)
(* [op |-> "seq", items |-> <<expressions>>].  The object built for a      *)
(* composition holds the flat list of primitives, in order (compositions   *)
(* given as items are spliced in), and calling it folds the list over the  *)
(* argument from left to right.                                            *)
(***************************************************************************)
EXTENDS Integers, Sequences, FiniteSets, TLC

Prims == { [op |-> "add", k |-> 1], [op |-> "mul", k |-> 2], [op |-> "neg", k |-> 0], [op |-> "id", k |-> 0] }
ApplyPrim(p, x) == CASE p.op = "add" -> x + p.k
                     [] p.op = "mul" -> x * p.k
                     [] p.op = "neg" -> -x
                     [] p.op = "id"  -> x
IsSeq(e) == e.op = "seq"

\* the flat list of primitives of an expression (depth-bounded recursion: expressions are finite trees)
RECURSIVE Flat(_)
RECURSIVE FlatItems(_, _)
Flat(e) == IF IsSeq(e) THEN FlatItems(e.items, 1) ELSE <<e>>
FlatItems(items, i) == IF i > Len(items) THEN <<>> ELSE Flat(items[i]) \o FlatItems(items, i + 1)

RECURSIVE Fold(_, _, _)
Fold(ps, i, x) == IF i > Len(ps) THEN x ELSE Fold(ps, i + 1, ApplyPrim(ps[i], x))
Call(e, x) == Fold(Flat(e), 1, x)

\* denotational meaning without flattening: apply the items one after the other, recursively
RECURSIVE Mean(_, _)
RECURSIVE MeanItems(_, _, _)
Mean(e, x) == IF IsSeq(e) THEN MeanItems(e.items, 1, x) ELSE ApplyPrim(e, x)
MeanItems(items, i, x) == IF i > Len(items) THEN x ELSE MeanItems(items, i + 1, Mean(items[i], x))

\* Python indexing of the flat list
Index(ps, i) == IF i >= 0 THEN (IF i < Len(ps) THEN ps[i + 1] ELSE [op |-> "IndexError", k |-> 0])
                ELSE (IF -i <= Len(ps) THEN ps[Len(ps) + i + 1] ELSE [op |-> "IndexError", k |-> 0])

\* expressions up to nesting depth 2 over at most MaxItems items
Exprs0 == Prims
SeqsOver(S, m) == UNION { { [op |-> "seq", items |-> s] : s \in [1 .. n -> S] } : n \in 1 .. m }
Exprs1(m) == Exprs0 \cup SeqsOver(Exprs0, m)
Exprs2(m) == Exprs1(m) \cup SeqsOver(Exprs1(m), m)
=============================================================================
