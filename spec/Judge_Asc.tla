------------------------------ MODULE Judge_Asc ------------------------------
(* Judge for C15: what the real converter did with a rendered token stream, against Asc.tla *)
EXTENDS Asc, Json, IOUtils
Cases == ndJsonDeserialize(IOEnv.CASES)
Obs   == ndJsonDeserialize(IOEnv.OBS)
Stream(c) == CASE c.var = "complete" -> c.toks
               [] c.var = "prefix"   -> SubSeq(c.toks, 1, c.k)
               [] c.var = "corrupt"  -> Corrupt(c.toks, c.p, c.kind)
WhyTable(o, exp, label) ==
    IF o.err # "" THEN "rejected-a-well-formed-document-" \o o.err
    ELSE IF Len(o.pid) # Len(exp) THEN "point-count"
    ELSE IF o.ids # [j \in 1 .. Len(exp) |-> j - 1] THEN "ids-not-in-document-order"
    ELSE IF o.pid # exp THEN "parents"
    ELSE IF \E j \in 1 .. Len(exp) : o.ty[j] # TypeOf(label) THEN "types"
    ELSE IF \E j \in 1 .. Len(exp) : o.xyzr[j] # PointVals(o.seq[j]) THEN "coordinates"        \* o.seq: which point (by its x tag) sits in row j
    ELSE IF o.seq # [j \in 1 .. Len(exp) |-> j - 1] THEN "document-order"
    ELSE ""
WhyDup(o, exp, label, m) ==
    IF o.err # "" THEN "rejected-a-well-formed-document-" \o o.err
    ELSE IF Len(o.pid) # Len(exp) THEN "point-count"
    ELSE IF o.ids # [j \in 1 .. Len(exp) |-> j - 1] THEN "ids-not-in-document-order"
    ELSE IF o.pid # exp THEN "parents"
    ELSE IF \E j \in 1 .. Len(exp) : o.ty[j] # TypeOf(label) THEN "types"
    ELSE IF \E j \in 1 .. Len(exp) : o.xyzr[j] # PointVals((j - 1) % m) THEN "coordinates"
    ELSE ""
Why(c, o) ==
    IF c.var = "dup" THEN (IF c.run # DupStream(c.toks, c.m) THEN "MACHINERY-rendered-stream-differs-from-the-specified-one"
                           ELSE WhyDup(o, RefTable(c.toks), RefLabel(c.toks), c.m))
    ELSE IF c.var = "big" THEN WhyTable(o, IF c.kind = "chain" THEN ChainExp(c.n) ELSE CombExp(c.n), UpperOf(c.label))
    ELSE IF c.run # Stream(c) THEN "MACHINERY-rendered-stream-differs-from-the-specified-one"
    ELSE IF c.var = "complete" THEN WhyTable(o, RefTable(c.toks), RefLabel(c.toks))
    ELSE IF o.err = "" THEN (IF c.var = "prefix" THEN "truncated-document-converted" ELSE "malformed-point-accepted-" \o c.kind)
    ELSE ""
VARIABLES l, bad
Init == l = 0 /\ bad = <<>>
Next == /\ l < Len(Obs)
        /\ l' = l + 1
        /\ LET o == Obs[l + 1]
               w == Why(Cases[o.cid], o) IN
           bad' = IF w = "" THEN bad ELSE Append(bad, <<o.cid, w>>)
Verdict == l = Len(Obs) => PrintT(<<"VERDICT", l, bad>>)
=============================================================================
