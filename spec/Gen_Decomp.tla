----------------------------- MODULE Gen_Decomp -----------------------------
EXTENDS Decomp, SequencesExt, Json, IOUtils
CONSTANTS MaxN, MaxNLen
All == UNION { Topos(n) : n \in 1 .. MaxN }
CDecomp == { [op |-> "decomp", P |-> P] : P \in All }
CBT     == { [op |-> "branch_tree", P |-> P] : P \in All }
CNode   == UNION { { [op |-> "node_branch", P |-> P, i |-> i] : i \in { j \in Nodes(P) : ~IsFurc(P, j) } } : P \in All }
CLong   == UNION { { [op |-> "longest_path", P |-> P, el |-> el] : el \in { e \in [1 .. Len(P) -> 1 .. 2] : e[1] = 1 } }
                   : P \in UNION { Topos(n) : n \in 2 .. MaxNLen } }
AllSeq   == SetToSeq(CDecomp \cup CBT \cup CNode \cup CLong)
Numbered == [k \in 1 .. Len(AllSeq) |-> [cid |-> k] @@ AllSeq[k]]
VARIABLE done
Init == done = ndJsonSerialize(IOEnv.OUT, Numbered)
Next == FALSE /\ UNCHANGED done
Emitted == done => PrintT(<<"CASES", Len(AllSeq)>>)
=============================================================================
