----------------------------- MODULE Gen_Decomp -----------------------------
EXTENDS Decomp, SequencesExt, Json, IOUtils
CONSTANTS MaxN, MaxNLen, MaxNHist, MinLen
All == UNION { Topos(n) : n \in 1 .. MaxN }
CDecomp == { [op |-> "decomp", P |-> P] : P \in All }
CBT     == { [op |-> "branch_tree", P |-> P] : P \in All }
CNode   == UNION { { [op |-> "node_branch", P |-> P, i |-> i] : i \in { j \in Nodes(P) : ~IsFurc(P, j) } } : P \in All }
CLong   == UNION { { [op |-> "longest_path", P |-> P, el |-> el] : el \in { e \in [1 .. Len(P) -> MinLen .. 2] : e[1] = 1 } }
                   : P \in UNION { Topos(n) : n \in 2 .. MaxNLen } }
\* histories: the tree is first queried with topology pre, then node ed[1] is re-parented in place to ed[2] (giving P), then queried again;
\* the answers after the edit are judged against P (Decomp.tla is a function of the current parent relation only)
Pre == UNION { Topos(n) : n \in 2 .. MaxNHist }
CHist   == UNION { { [op |-> o, P |-> Reparent(P0, e[1], e[2]), pre |-> P0, ed |-> e] : e \in Edits(P0), o \in {"decomp", "branch_tree"} } : P0 \in Pre }
CHistN  == UNION { UNION { { [op |-> "node_branch", P |-> Reparent(P0, e[1], e[2]), pre |-> P0, ed |-> e, i |-> i]
                             : i \in { j \in Nodes(P0) : ~IsFurc(Reparent(P0, e[1], e[2]), j) } } : e \in Edits(P0) } : P0 \in Pre }
ASSUME \A P0 \in Pre : \A e \in Edits(P0) : WF(Reparent(P0, e[1], e[2]))        \* the edit keeps the tree well formed
AllSeq   == SetToSeq(CDecomp \cup CBT \cup CNode \cup CLong \cup CHist \cup CHistN)
Numbered == [k \in 1 .. Len(AllSeq) |-> [cid |-> k] @@ AllSeq[k]]
VARIABLE done
Init == done = ndJsonSerialize(IOEnv.OUT, Numbered)
Next == FALSE /\ UNCHANGED done
Emitted == done => PrintT(<<"CASES", Len(AllSeq)>>)
=============================================================================
