------------------------------- MODULE SwcIO -------------------------------
(***************************************************************************)
(* C01 / C02 — the SWC line grammar, the reader loop with its context      *)
(* manager, the post-read normalisation, and the writer.                   *)
(*                                                                         *)
(* A *file* is a sequence of abstract lines:                               *)
(*   [k |-> "D", id, ty, fv, ft, pid, ex, ext, sp]  data row; ft = the     *)
(*        spellings of x,y,z,r and fv the values they denote, ext / ex the *)
(*        numeric fields present after pid, sp = whitespace variant chosen *)
(*        by the executor when rendering                                   *)
(*   [k |-> "C", lead, body]   '#' line: lead blanks after '#', then body  *)
(*   [k |-> "B", sp]           blank line (empty / blanks / tab)           *)
(*   [k |-> "M", toks]         a line that is none of the above            *)
(*   [k |-> "U", lead, body]   a comment line holding a byte that is not   *)
(*                             valid UTF-8 (valid Latin-1)                 *)
(* Values of floats are integers in units of 10^-4.                        *)
(***************************************************************************)
EXTENDS SortNodes

FloatTok == <<"0", "1", "+2", "-3", "-0", "1e0", ".5", "5.", "1.5E+1", "-2.25", "0.0001", "12.3456", "1e-2", "7", "8.5", "9", "1E2", "-.25">>
FloatVal == <<0, 10000, 20000, -30000, 0, 10000, 5000, 50000, 150000, -22500, 1, 123456, 100, 70000, 85000, 90000, 1000000, -2500>>
NTok == Len(FloatTok)

HeaderBody == "id type x y z r pid"
IsHeaderC(ln) == ln.lead = 1 /\ ln.hdr = 1        \* text after '#' starts with " id type x y z r pid"

Opt(nex, sort, reset, enc) == [nex |-> nex, sort |-> sort, reset |-> reset, enc |-> enc]

\* a data row carries, for each float field, its spelling (ft / ext) and the value that spelling denotes (fv / ex)
MkD(id, ty, fi, pid, exi, sp) == [k |-> "D", id |-> id, ty |-> ty, fv |-> [j \in 1 .. 4 |-> FloatVal[fi[j]]], ft |-> [j \in 1 .. 4 |-> FloatTok[fi[j]]],
                                  pid |-> pid, ex |-> [j \in 1 .. Len(exi) |-> FloatVal[exi[j]]], ext |-> [j \in 1 .. Len(exi) |-> FloatTok[exi[j]]], sp |-> sp]
Toks(ln) == <<ToString(ln.id), ToString(ln.ty)>> \o ln.ft \o <<ToString(ln.pid)>> \o ln.ext

\* ---- one iteration of the reader loop -------------------------------------------------------------------
Decodable(ln, opt)  == ln.k # "U" \/ opt.enc = "latin-1"
Malformed(ln, opt)  == ln.k = "M" \/ (ln.k = "D" /\ Len(ln.ex) < opt.nex)
ParseRow(ln, opt)   == <<ln.id, ln.ty, ln.fv[1], ln.fv[2], ln.fv[3], ln.fv[4], ln.pid>> \o [j \in 1 .. opt.nex |-> ln.ex[j]]
Trailing(ln, opt)   == Len(ln.ex) > opt.nex
CommentOf(ln)       == <<ln.lead, ln.body>>

\* the whole loop as a function (used by the judges); the state machine below is checked to compute exactly this
RECURSIVE Loop(_, _, _, _, _, _)
Loop(file, opt, i, rows, com, warned) ==
    IF i > Len(file) THEN [st |-> "framed", rows |-> rows, com |-> com, warned |-> warned]
    ELSE LET ln == file[i] IN
         IF Malformed(ln, opt) \/ ~Decodable(ln, opt) THEN [st |-> "raised", rows |-> <<>>, com |-> <<>>, warned |-> FALSE]
         ELSE IF ln.k = "D" THEN Loop(file, opt, i + 1, Append(rows, ParseRow(ln, opt)), com, warned \/ Trailing(ln, opt))
         ELSE IF ln.k \in {"C", "U"} THEN Loop(file, opt, i + 1, rows, IF IsHeaderC(ln) THEN com ELSE Append(com, CommentOf(ln)), warned)
         ELSE Loop(file, opt, i + 1, rows, com, warned)
ReadLoop(file, opt) == Loop(file, opt, 1, <<>>, <<>>, FALSE)

\* ---- after the loop: data frame, then sort / reset ---------------------------------------------------------
RowIds(rows)  == [k \in 1 .. Len(rows) |-> rows[k][1]]
RowPids(rows) == [k \in 1 .. Len(rows) |-> rows[k][7]]
FirstRoot(rows) == IF \E k \in 1 .. Len(rows) : rows[k][7] = -1
                   THEN CHOOSE k \in 1 .. Len(rows) : rows[k][7] = -1 /\ \A j \in 1 .. k - 1 : rows[j][7] # -1
                   ELSE 1
\* ids are rebased on the smallest id (the root's, in a sorted file), so that no id can become the -1 marker
MinId(rows) == CHOOSE m \in { rows[k][1] : k \in 1 .. Len(rows) } : \A k \in 1 .. Len(rows) : m <= rows[k][1]
ResetIndex(rows) == LET b == MinId(rows) IN
                    [k \in 1 .. Len(rows) |-> [rows[k] EXCEPT ![1] = @ - b, ![7] = IF @ = -1 THEN -1 ELSE @ - b]]
NRoots(rows) == Cardinality({ k \in 1 .. Len(rows) : rows[k][7] = -1 })

\* outcome of a read: [st |-> "raised"] or [st |-> "returned", rows, com, warned, sorted]
\* (for sort_nodes the numbering is not fixed: rows are the *unsorted* rows, the judge checks the relabelling relation)
Finish(fr, opt) ==
    IF fr.st = "raised" THEN fr
    ELSE IF Len(fr.rows) = 0 THEN [fr EXCEPT !.st = "raised"]                     \* an empty table has no root: every mode fails loudly
    ELSE IF opt.sort /\ NRoots(fr.rows) # 1 THEN [fr EXCEPT !.st = "raised"]      \* documented precondition of sorting
    ELSE IF opt.sort THEN [fr EXCEPT !.st = "returned"]
    ELSE IF opt.reset THEN [fr EXCEPT !.st = "returned", !.rows = ResetIndex(fr.rows)]
    ELSE [fr EXCEPT !.st = "returned"]
Read(file, opt) == Finish(ReadLoop(file, opt), opt)

DataLines(file)  == SelectSeq(file, LAMBDA ln : ln.k = "D")
BadLine(file, opt) == \E i \in 1 .. Len(file) : Malformed(file[i], opt) \/ ~Decodable(file[i], opt)

\* ---- the writer -------------------------------------------------------------------------------------------
\* a tree to write: P (topology), ty, v (per node <<x,y,z,r>> as magnitudes in 10^-5 with sign and exactness), comments (<<lead, body>>)
\* Round4: nearest multiple of 10^-4 of sign * (k5 [+ a little if ~exact]) * 10^-5, ties (k5 ends in 5, exact) to even
Round4(a) == LET k5 == a[2]  d == k5 % 10  q == k5 \div 10
                 up == d > 5 \/ (d = 5 /\ (a[3] = 0 \/ q % 2 = 1)) IN
             a[1] * (IF up THEN q + 1 ELSE q)
Pad4(n) == IF n < 10 THEN "000" \o ToString(n) ELSE IF n < 100 THEN "00" \o ToString(n) ELSE IF n < 1000 THEN "0" \o ToString(n) ELSE ToString(n)
\* what f"{v:.4f}" prints for a value whose rounding is q (10^-4 units); a negative value that rounds to zero prints "-0.0000"
Fmt4(a) == LET q == Round4(a)  m == Abs(q) IN
           (IF a[1] < 0 THEN "-" ELSE "") \o ToString(m \div 10000) \o "." \o Pad4(m % 10000)

\* ---- the same rounding for magnitudes beyond 32 bits (|v| up to the largest float32, 3.4 * 10^38) ------------------------
\* a magnitude is a sequence of base-10^8 limbs, least significant first, without leading zero limbs (<<>> is zero);
\* a value is [s |-> sign, m |-> limbs of floor(|v| * 10^5), e |-> 1 if |v| * 10^5 is that integer exactly]
BB == 100000000
RECURSIVE BDiv10(_, _, _)                    \* <<quotient limbs 1..i, remainder>> of the number made of limbs 1..i with carry on top
BDiv10(n, i, carry) == IF i = 0 THEN <<<<>>, carry>>
                       ELSE LET cur == carry * BB + n[i]  rest == BDiv10(n, i - 1, cur % 10) IN <<Append(rest[1], cur \div 10), rest[2]>>
RECURSIVE BTrim(_)
BTrim(n) == IF n # <<>> /\ n[Len(n)] = 0 THEN BTrim(SubSeq(n, 1, Len(n) - 1)) ELSE n
RECURSIVE BInc(_)
BInc(n) == IF n = <<>> THEN <<1>> ELSE IF n[1] + 1 < BB THEN [n EXCEPT ![1] = @ + 1] ELSE <<0>> \o BInc(Tail(n))
Round4Big(a) == LET dr == BDiv10(a.m, Len(a.m), 0)  q == BTrim(dr[1])  d == dr[2]
                    odd == q # <<>> /\ q[1] % 2 = 1
                    up == d > 5 \/ (d = 5 /\ (a.e = 0 \/ odd)) IN
                [s |-> a.s, m |-> IF up THEN BInc(q) ELSE q]
\* the limb arithmetic is the 32-bit arithmetic wherever both apply
BigOf(k) == BTrim(<<k % BB, k \div BB>>)
ASSUME \A k5 \in (0 .. 2100) \cup {99994, 99995, 99996, 999999994, 999999995, 999999996, 1999999995, 2000000005} : \A ex \in {0, 1} :
          Round4Big([s |-> 1, m |-> BigOf(k5), e |-> ex]).m = BigOf(Round4(<<1, k5, ex>>))

\* comment c = <<lead, body>> as the writer emits it: whitespace-only -> "#", otherwise "# " + lstrip
WrittenComment(c) == IF c[2] = "" /\ c[1] > 0 THEN [k |-> "C", lead |-> 0, body |-> "", hdr |-> 0]
                     ELSE [k |-> "C", lead |-> 1, body |-> c[2], hdr |-> 0]
HeaderLine(extra) == [k |-> "C", lead |-> 1, body |-> HeaderBody \o (IF extra THEN " e" ELSE ""), hdr |-> 1]
SourceLines(src) == IF src = "" THEN <<>> ELSE << <<0, "source: " \o src>>, <<0, "">> >>
WrittenComments(t, src, wc) == LET cs == SourceLines(src) \o (IF wc THEN t.com ELSE <<>>) IN [j \in 1 .. Len(cs) |-> WrittenComment(cs[j])]
\* written row of node i (0-based) as a data line: spelling Fmt4 denotes the value Round4
WRow(t, off, i) == [k |-> "D", id |-> i + off, ty |-> t.ty[i + 1], fv |-> [j \in 1 .. 4 |-> Round4(t.v[i + 1][j])], ft |-> [j \in 1 .. 4 |-> Fmt4(t.v[i + 1][j])],
                    pid |-> IF t.P[i + 1] = -1 THEN -1 ELSE t.P[i + 1] + off, ex |-> <<>>, ext |-> <<>>, sp |-> 1]
WrittenFile(t, off, src, wc) == WrittenComments(t, src, wc) \o <<HeaderLine(FALSE)>> \o [k \in 1 .. Len(t.P) |-> WRow(t, off, k - 1)]
\* expected result of reading the written text back with default options
RTRows(t)   == [k \in 1 .. Len(t.P) |-> <<k - 1, t.ty[k], Round4(t.v[k][1]), Round4(t.v[k][2]), Round4(t.v[k][3]), Round4(t.v[k][4]), t.P[k]>>]
RTBodies(t, src, wc) == LET cs == SourceLines(src) \o (IF wc THEN t.com ELSE <<>>) IN [j \in 1 .. Len(cs) |-> cs[j][2]]

\* ---- the reader as a state machine (one action per loop iteration; the context manager's exit is its own step) ----
VARIABLES file, opt, pos, rows, coms, warned, st, exc
rvars == <<file, opt, pos, rows, coms, warned, st, exc>>
RInit(F, O) == file \in F /\ opt \in O /\ pos = 1 /\ rows = <<>> /\ coms = <<>> /\ warned = FALSE /\ st = "loop" /\ exc = "none"
AtLine == st = "loop" /\ pos <= Len(file)
ReadData    == AtLine /\ file[pos].k = "D" /\ ~Malformed(file[pos], opt)
               /\ rows' = Append(rows, ParseRow(file[pos], opt)) /\ warned' = (warned \/ Trailing(file[pos], opt))
               /\ pos' = pos + 1 /\ UNCHANGED <<file, opt, coms, st, exc>>
ReadComment == AtLine /\ file[pos].k \in {"C", "U"} /\ Decodable(file[pos], opt)
               /\ coms' = (IF IsHeaderC(file[pos]) THEN coms ELSE Append(coms, CommentOf(file[pos])))
               /\ pos' = pos + 1 /\ UNCHANGED <<file, opt, rows, warned, st, exc>>
ReadBlank   == AtLine /\ file[pos].k = "B" /\ pos' = pos + 1 /\ UNCHANGED <<file, opt, rows, coms, warned, st, exc>>
RaiseInvalid == AtLine /\ Malformed(file[pos], opt) /\ exc' = "ValueError" /\ st' = "exiting" /\ UNCHANGED <<file, opt, pos, rows, coms, warned>>
\* the decoder works on buffers: a bad byte at or after the current line may surface now, but never later than its own line
RaiseDecode == st = "loop" /\ (\E j \in pos .. Len(file) : ~Decodable(file[j], opt))
               /\ exc' = "ValueError" /\ st' = "exiting" /\ UNCHANGED <<file, opt, pos, rows, coms, warned>>
EndLoop     == st = "loop" /\ pos > Len(file) /\ st' = "exiting" /\ UNCHANGED <<file, opt, pos, rows, coms, warned, exc>>
ExitCtx     == st = "exiting" /\ st' = (IF exc = "none" THEN "framed" ELSE "raised") /\ UNCHANGED <<file, opt, pos, rows, coms, warned, exc>>
\* named deviation (NOT part of Next): __exit__ returns a truthy value and the exception is swallowed
ExitCtxSwallow == st = "exiting" /\ st' = "framed" /\ UNCHANGED <<file, opt, pos, rows, coms, warned, exc>>
FinishStep  == st = "framed"
               /\ LET r == Finish([st |-> "framed", rows |-> rows, com |-> coms, warned |-> warned], opt) IN
                  st' = r.st /\ rows' = r.rows
               /\ UNCHANGED <<file, opt, pos, coms, warned, exc>>
RNext == ReadData \/ ReadComment \/ ReadBlank \/ RaiseInvalid \/ RaiseDecode \/ EndLoop \/ ExitCtx \/ FinishStep
RNextSwallow == ReadData \/ ReadComment \/ ReadBlank \/ RaiseInvalid \/ RaiseDecode \/ EndLoop \/ ExitCtxSwallow \/ FinishStep

\* ---- the properties (C02) ----------------------------------------------------------------------------------
RawRows == [k \in 1 .. Len(DataLines(file)) |-> ParseRow(DataLines(file)[k], opt)]
NoSilentTruncation == st = "returned" =>
        /\ Len(rows) = Len(DataLines(file))
        /\ rows = (IF opt.sort \/ ~opt.reset THEN RawRows ELSE ResetIndex(RawRows))
Loud == st \in {"framed", "returned"} => ~BadLine(file, opt)
MachineIsFunction == /\ st = "framed" => [st |-> "framed", rows |-> rows, com |-> coms, warned |-> warned] = ReadLoop(file, opt)
                     /\ st = "returned" => Read(file, opt).st = "returned" /\ Read(file, opt).rows = rows
                     /\ st = "raised" => Read(file, opt).st = "raised"
=============================================================================
