------------------------------- MODULE MC_Mst -------------------------------
(***************************************************************************)
(* The greedy construction on exact instances (points on a line and the    *)
(* corners of 3-4-5 rectangles, where every distance is an integer), every *)
(* balancing factor in {0, 1/2, 1}, every branching limit, root exempt or  *)
(* not.  Nondeterministic on exact ties.  Alongside the declarative state  *)
(* the code's mask matrix is maintained exactly as the loop does, and      *)
(*   MaskIsAdmissible : the unmasked entries are exactly the admissible    *)
(*                      (connected, unsaturated) x (unconnected) pairs     *)
(*   DegreeAlways, SpanningAtEnd, and for bf = 0 without limit: the result *)
(*   is a minimum spanning tree (IsMST, and total length = the minimum over*)
(*   all spanning trees, computed by enumeration)                          *)
(***************************************************************************)
EXTENDS Mst
CONSTANTS Inst, UseWrongAxis
VARIABLES g, mask, cfg
vars == <<g, mask, cfg>>
Abs(x) == IF x < 0 THEN -x ELSE x
LineD(xs) == [a \in 1 .. Len(xs) |-> [b \in 1 .. Len(xs) |-> Abs(xs[a] - xs[b])]]
\* rectangle corners (0,0) (3s,0) (0,4s) (3s,4s): sides 3s, 4s, diagonals 5s
RectD(s) == << <<0, 3 * s, 4 * s, 5 * s>>, <<3 * s, 0, 5 * s, 4 * s>>, <<4 * s, 5 * s, 0, 3 * s>>, <<5 * s, 4 * s, 3 * s, 0>> >>
Instances == { LineD(<<0, 1, 3, 7>>), LineD(<<5, 0, 9, 2>>), LineD(<<0, 10, 11, 13, 4>>), LineD(<<3, 1, 8, 0, 15>>), LineD(<<0, 2, 4>>), LineD(<<7, 0>>),
               RectD(1), RectD(2), LineD(<<0, 10, 13, 12, 1>>) }
Cfgs == { [D |-> D, p |-> pq[1], q |-> pq[2], k |-> k, ex |-> ex] : D \in (IF Inst = "all" THEN Instances ELSE {RectD(1)}),
                                                                   pq \in {<<0, 1>>, <<1, 2>>, <<1, 1>>}, k \in {-1, 1, 2, 3}, ex \in BOOLEAN }
N == Len(cfg.D)
Init == /\ cfg \in Cfgs
        /\ g = G0(Len(cfg.D))
        /\ mask = [a \in 1 .. Len(cfg.D) |-> [b \in 1 .. Len(cfg.D) |-> ~(a = 1 /\ b # 1)]]
\* the code's argmin over the unmasked entries of dis + bf * acc[:, None]  (UseWrongAxis: the named deviation bf * acc broadcast over columns)
CodeCost(e) == cfg.q * Dist(cfg.D, e[1], e[2]) + cfg.p * (IF UseWrongAxis THEN g.acc[e[2] + 1] ELSE g.acc[e[1] + 1])
Unmasked == { e \in Pts(N) \X Pts(N) : ~mask[e[1] + 1][e[2] + 1] }
Step == /\ Cardinality(g.conn) < N
        /\ \E e \in Unmasked :
              /\ \A f \in Unmasked : CodeCost(e) <= CodeCost(f)
              /\ LET i == e[1]  j == e[2]
                     g2 == Attach(g, cfg.D, e)
                     sat == cfg.k # -1 /\ g2.cnt[i + 1] >= cfg.k /\ (~cfg.ex \/ i # 0)
                     m1 == IF sat THEN [a \in 1 .. N |-> [b \in 1 .. N |-> IF a = i + 1 \/ b = i + 1 THEN TRUE ELSE mask[a][b]]] ELSE mask
                     m2 == [a \in 1 .. N |-> [b \in 1 .. N |-> IF b = j + 1 THEN TRUE ELSE IF a = j + 1 THEN (b - 1) \in g2.conn ELSE m1[a][b]]] IN
                 g' = g2 /\ mask' = m2
        /\ UNCHANGED cfg
Done == Cardinality(g.conn) = N \/ Unmasked = {}
Next == Step \/ (Done /\ UNCHANGED vars)
Spec == Init /\ [][Next]_vars /\ WF_vars(Step)

MaskIsAdmissible == Unmasked = Admissible(g, N, cfg.k, cfg.ex)
GreedyStep == [][ g' # g => \E e \in Greedy(g, N, cfg.D, cfg.p, cfg.q, cfg.k, cfg.ex, 0) : g' = Attach(g, cfg.D, e) ]_vars
DegreeAlways == DegreeOK(g.par, cfg.k, cfg.ex)
Finished == Cardinality(g.conn) = N
SpanningAtEnd == Finished => SpanningWhy(g.par, N) = ""
AllSpanning == { par \in [1 .. N -> -1 .. N - 1] : SpanningWhy(par, N) = "" }
MinTotal == LET ts == { TotalLen(par, cfg.D) : par \in AllSpanning } IN CHOOSE t \in ts : \A u \in ts : t <= u
OptimalAtEnd == (Finished /\ cfg.p = 0 /\ cfg.k = -1) => IsMST(g.par, cfg.D, 0) /\ TotalLen(g.par, cfg.D) = MinTotal
Completes == <>Finished
=============================================================================
