------------------------------ MODULE AssembleProp ---------------------------
(***************************************************************************)
(* X03 (beyond the listed properties) — swcgeom.transforms.LinesToTree:    *)
(* poly-lines traced separately are assembled into one tree.               *)
(*                                                                         *)
(* Abstract state.  A line is a sequence of lattice points <<x, y>> (at    *)
(* least two).  A node of the table under construction is                  *)
(*    [ln, k, pt, id, pid]   (line, position in the line, point, ids).     *)
(* The algorithm layer below is the code's loop, one action per loop       *)
(* iteration:                                                              *)
(*   Start   the first remaining line becomes a chain with a root          *)
(*   Attach  the first remaining line (list order; first end before last   *)
(*           end) one of whose admissible ends lies within the threshold   *)
(*           of the sub-tree under construction is hung below the nearest  *)
(*           node; an end that coincides with that node is dropped         *)
(*           (merged); the scan restarts                                   *)
(*   Close   no remaining line can be attached: the sub-tree is finished   *)
(*   Link    (link_roots_to_nearest_) every root but the first is hung     *)
(*           below the nearest node outside its own component              *)
(* The property layer (this module: Conservation ... NearestLinks) is      *)
(* declarative and mentions neither the scan order nor ids; the algorithm  *)
(* layer is Assemble.tla.                                                  *)
(***************************************************************************)
EXTENDS Integers, Sequences, FiniteSets, TLC

D2(p, q) == (p[1] - q[1]) * (p[1] - q[1]) + (p[2] - q[2]) * (p[2] - q[2])
Min(S) == CHOOSE x \in S : \A y \in S : x <= y
Ends(und) == IF und THEN <<0, -1>> ELSE <<0>>                 \* Python positions of the admissible ends
EndK(L, p) == IF p = 0 THEN 1 ELSE Len(L)
Idents(lines) == { <<ln, k>> : ln \in 1 .. Len(lines), k \in 1 .. 3 } \cap { <<ln, k>> \in (1 .. Len(lines)) \X (1 .. 3) : k <= Len(lines[ln]) }

(* ----------------------------- declarative layer ----------------------------- *)
\* line m can take line l: an admissible end of l lies within the threshold of a point of m
Near(lines, und, T2, m, l) == \E e \in 1 .. Len(Ends(und)) : \E k \in 1 .. Len(lines[m]) :
                                  D2(lines[m][k], lines[l][EndK(lines[l], Ends(und)[e])]) <= T2
\* least set of lines containing s, within R, closed under "can be taken by a member"
RECURSIVE Closure(_, _, _, _, _)
Closure(lines, und, T2, S, R) ==
    LET add == { l \in R \ S : \E m \in S : Near(lines, und, T2, m, l) } IN
    IF add = {} THEN S ELSE Closure(lines, und, T2, S \cup add, R)
\* the sub-trees, in order: each is the closure of the first line not yet used
RECURSIVE Classes(_, _, _, _)
Classes(lines, und, T2, R) ==
    IF R = {} THEN <<>>
    ELSE LET S == Closure(lines, und, T2, {Min(R)}, R) IN <<S>> \o Classes(lines, und, T2, R \ S)
AllClasses(lines, und, T2) == Classes(lines, und, T2, 1 .. Len(lines))

(* a finished table, as a set of nodes [ln, k, pt, id, pid], is judged through these *)
ById(tab, i) == CHOOSE n \in tab : n.id = i
Roots(tab) == { n \in tab : n.pid = -1 }
RECURSIVE Reaches(_, _, _, _)
Reaches(tab, n, r, fuel) == IF n.id = r.id THEN TRUE
                            ELSE IF fuel = 0 \/ n.pid = -1 \/ ~\E m \in tab : m.id = n.pid THEN FALSE
                            ELSE Reaches(tab, ById(tab, n.pid), r, fuel - 1)
SingleTree(tab) == /\ Cardinality(Roots(tab)) = 1
                   /\ Cardinality({ n.id : n \in tab }) = Cardinality(tab)
                   /\ \A n \in tab : Reaches(tab, n, CHOOSE r \in Roots(tab) : TRUE, Cardinality(tab))
Adjacent(a, b) == a.pid = b.id \/ b.pid = a.id
\* a node stands for its own identity; a dropped end is represented by the node at the same position it was merged into
Present(tab) == { <<n.ln, n.k>> : n \in tab }
Missing(lines, tab) == Idents(lines) \ Present(tab)
Conservation(lines, und, tab) ==
    /\ Present(tab) \subseteq Idents(lines)
    /\ Cardinality(Present(tab)) = Cardinality(tab)                                    \* nobody twice
    /\ \A n \in tab : n.pt = lines[n.ln][n.k]
    /\ \A id \in Missing(lines, tab) :                                               \* only an admissible end can be dropped, at most one per line, and only onto a coincident node
          /\ \E e \in 1 .. Len(Ends(und)) : id[2] = EndK(lines[id[1]], Ends(und)[e])
          /\ \A id2 \in Missing(lines, tab) : id2[1] = id[1] => id2 = id
          /\ \E n \in tab : n.ln # id[1] /\ n.pt = lines[id[1]][id[2]]
NodeOf(tab, id) == CHOOSE n \in tab : <<n.ln, n.k>> = id
LineEdges(lines, tab) ==
    \A ln \in 1 .. Len(lines) : \A k \in 1 .. Len(lines[ln]) - 1 :
        LET a == <<ln, k>>  b == <<ln, k + 1>> IN
        IF a \in Present(tab) /\ b \in Present(tab) THEN Adjacent(NodeOf(tab, a), NodeOf(tab, b))
        ELSE IF a \in Present(tab) THEN \E n \in tab : n.ln # ln /\ n.pt = lines[ln][k + 1] /\ Adjacent(NodeOf(tab, a), n)
        ELSE IF b \in Present(tab) THEN \E n \in tab : n.ln # ln /\ n.pt = lines[ln][k] /\ Adjacent(NodeOf(tab, b), n)
        ELSE TRUE
\* edges that are not the image of a line's own segment
IsLineEdge(c, p) == c.ln = p.ln /\ (c.k = p.k + 1 \/ p.k = c.k + 1)
Joins(tab) == { <<c, p>> \in tab \X tab : c.pid = p.id /\ ~IsLineEdge(c, p) }
\* every join hangs a (remaining) end of a line below a node of another line
JoinsAtEnds(lines, und, tab) ==
    \A j \in Joins(tab) : LET c == j[1]  p == j[2]  ks == { n.k : n \in { m \in tab : m.ln = c.ln } } IN
        /\ c.ln # p.ln
        /\ c.k = Min(ks) \/ c.k = -Min({ -k : k \in ks })
\* the lines of one class hang together through line segments and joins no longer than the threshold
\* a direct join: no longer than the threshold, or the image of a line's own end segment whose end point was merged into the other node
DirectJoin(lines, T2, tab, a, b) ==
    \/ D2(a.pt, b.pt) <= T2
    \/ \E id \in Missing(lines, tab) : \/ (id[1] = a.ln /\ lines[id[1]][id[2]] = b.pt)
                                       \/ (id[1] = b.ln /\ lines[id[1]][id[2]] = a.pt)
RECURSIVE Grow(_, _, _, _, _)
Grow(lines, tab, T2, cls, S) ==
    LET add == { n \in tab : n.ln \in cls /\ n \notin S /\ \E m \in S :
                     \/ (Adjacent(n, m) /\ IsLineEdge(n, m))
                     \/ (Adjacent(n, m) /\ m.ln \in cls /\ DirectJoin(lines, T2, tab, n, m)) } IN
    IF add = {} THEN S ELSE Grow(lines, tab, T2, cls, S \cup add)
ClassesHangTogether(lines, und, T2, tab) ==
    \A c \in 1 .. Len(AllClasses(lines, und, T2)) :
        LET cls == AllClasses(lines, und, T2)[c]
            mine == { n \in tab : n.ln \in cls }
            seed == CHOOSE n \in mine : TRUE IN
        Grow(lines, tab, T2, cls, {seed}) = mine
\* the first point of the first line of class 1 is the root; the first point of the first line of every other class is linked
ClassOf(cl, ln) == CHOOSE c \in 1 .. Len(cl) : ln \in cl[c]
RootOfClass(tab, cl, c) == NodeOf(tab, <<Min(cl[c]), 1>>)
\* replays the linking of roots 2, 3, ... : each hangs below a nearest node outside its current group; groups merge as the code merges them
RECURSIVE LinksOK(_, _, _, _)
LinksOK(tab, cl, c, grp) ==          \* grp: class -> group label
    IF c > Len(cl) THEN TRUE
    ELSE LET r == RootOfClass(tab, cl, c)
             out == { n \in tab : grp[ClassOf(cl, n.ln)] # grp[c] } IN
         /\ r.pid # -1
         /\ \E p \in out : /\ p.id = r.pid
                           /\ \A q \in out : D2(r.pt, p.pt) <= D2(r.pt, q.pt)
                           /\ LinksOK(tab, cl, c + 1, [x \in DOMAIN grp |-> IF grp[x] = grp[c] THEN grp[ClassOf(cl, p.ln)] ELSE grp[x]])
NearestLinks(lines, und, T2, tab) ==
    LET cl == AllClasses(lines, und, T2) IN
    /\ RootOfClass(tab, cl, 1).pid = -1
    /\ LinksOK(tab, cl, 2, [x \in 1 .. Len(cl) |-> x])
    /\ Cardinality({ j \in Joins(tab) : ClassOf(cl, j[1].ln) # ClassOf(cl, j[2].ln) }) = Len(cl) - 1

\* the failing clause, "" if none (shared by the model checker and the judge)
Why(lines, und, T2, tab) ==
    IF ~Conservation(lines, und, tab) THEN "a-point-was-lost-duplicated-or-moved"
    ELSE IF ~SingleTree(tab) THEN "not-a-single-tree"
    ELSE IF ~LineEdges(lines, tab) THEN "a-segment-of-a-line-is-not-an-edge"
    ELSE IF ~JoinsAtEnds(lines, und, tab) THEN "a-line-is-joined-elsewhere-than-at-an-end"
    ELSE IF ~ClassesHangTogether(lines, und, T2, tab) THEN "lines-within-the-threshold-were-not-joined-directly"
    ELSE IF ~NearestLinks(lines, und, T2, tab) THEN "a-sub-tree-is-not-linked-to-its-nearest-node"
    ELSE ""

(* instance pools: lattice lines of two or three points; unit and longer steps, a bend, lines that touch at ends, in the middle, or not at all *)
PoolA == { <<<<0, 0>>, <<2, 0>>>>, <<<<2, 0>>, <<4, 0>>>>, <<<<4, 1>>, <<2, 1>>>>, <<<<2, 3>>, <<2, 1>>, <<2, 0>>>>,
           <<<<5, 0>>, <<7, 0>>>>, <<<<7, 3>>, <<7, 1>>>>, <<<<0, 3>>, <<0, 1>>>> }
PoolB == PoolA \cup { <<<<3, 0>>, <<3, 2>>, <<5, 2>>>>, <<<<9, 9>>, <<9, 7>>>>, <<<<1, 0>>, <<1, 2>>>> }
=============================================================================
