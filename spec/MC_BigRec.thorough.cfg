CONSTANTS N = 3 MaxLen = 5
INIT Init
NEXT Next
INVARIANT Agree
