---------------------------- MODULE MC_RerootAlg ----------------------------
(***************************************************************************)
(* Algorithm layer for C07: redirect_tree's path reversal (walk from the   *)
(* new root up to the old root, clear the new root's parent, point every   *)
(* node on the walk at its predecessor) on every topology and every new    *)
(* root: same undirected edges, exactly one root (the requested one),      *)
(* every node reaches it.                                                  *)
(***************************************************************************)
EXTENDS Reroot
CONSTANT MaxN
VARIABLES P, i
Init == P \in UNION { Topos(n) : n \in 1 .. MaxN } /\ i \in Nodes(P)
Next == UNCHANGED <<P, i>>
R == RedirectAlg(P, i)
SameUEdges  == UEdges(R) = UEdges(P)
OneRoot     == Roots(R) = {i}
AllReach    == \A k \in Nodes(P) : i \in Anc(R, k)
Involution  == RedirectAlg(R, 0) = P \/ Len(P) = 0       \* re-rooting back at the old root restores the parent function
=============================================================================
