CONSTANT MaxN = 5
CONSTANT NoVal <- NoneTerm
SPECIFICATION Spec
INVARIANT EveryEventAllowed
INVARIANT StackBounded
INVARIANT IsRec
PROPERTY Terminates
