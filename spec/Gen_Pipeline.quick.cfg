CONSTANT M = 2
INIT Init
NEXT Next
INVARIANT Emitted
