---------------------------- MODULE Judge_VolTree ----------------------------
(* Judge for C14: o.ratio = observed volume / (pi * unit^3 * sum of the expected parts) in units of 10^-9 *)
EXTENDS VolTree, Json, IOUtils
Cases == ndJsonDeserialize(IOEnv.CASES)
Obs   == ndJsonDeserialize(IOEnv.OBS)
\* trees in general position (levels 1 and 2 only): c.t rows are <<parent, edge length to the parent, radius>>
LatticeParts(t, level) == [j \in NodesOf(t) |-> CSphere(R(t[j][3]))]
                          \o (IF level = 1 THEN <<>> ELSE [e \in 1 .. Len(EdgeSeq(t)) |-> LET j == EdgeSeq(t)[e][1] IN CFrustum(R(t[t[j][1] + 1][3]), R(t[j][3]), R(t[j][2]))])
Why(c, o) ==
    IF o.err # "" THEN "raised-" \o o.err
    ELSE IF c.kind = "collinear" /\ ~Admissible(c.t) THEN "MACHINERY-case-outside-the-premise"
    ELSE IF c.parts # (IF c.kind = "collinear" THEN Expected(c.t, IF c.level >= 3 THEN 3 ELSE c.level) ELSE LatticeParts(c.t, c.level)) THEN "MACHINERY-expected-parts"
    ELSE IF AbsI(o.ratio - 1000000000) > 20000 THEN "level-" \o ToString(c.level) \o "-" \o c.kind ELSE ""
VARIABLES l, bad
Init == l = 0 /\ bad = <<>>
Next == /\ l < Len(Obs)
        /\ l' = l + 1
        /\ LET o == Obs[l + 1]
               w == Why(Cases[o.cid], o) IN
           bad' = IF w = "" THEN bad ELSE Append(bad, <<o.cid, w>>)
Verdict == l = Len(Obs) => PrintT(<<"VERDICT", l, bad>>)
=============================================================================
