------------------------------ MODULE VolPrim ------------------------------
(***************************************************************************)
(* C13 — closed-form volumes of the primitives, in units of pi, over exact *)
(* rationals.  "Truth" is the defining integral of the solid of revolution *)
(* (cross-section radius squared integrated along the axis), evaluated     *)
(* through polynomial primitives; "Code" is the formula / case analysis    *)
(* that swcgeom.utils.volumetric_object uses.                              *)
(***************************************************************************)
EXTENDS Rat
Third == Q(1, 3)
\* integral of (r^2 - x^2) dx from a to b
SphereSlab(r, a, b) == RSub(RSub(RMul(RSq(r), b), RMul(Third, RCube(b))), RSub(RMul(RSq(r), a), RMul(Third, RCube(a))))
\* integral of (r1 + k x)^2 dx from 0 to b
ConeSlab(r1, k, b) == RAdd(RAdd(RMul(RSq(r1), b), RMul(RMul(r1, k), RSq(b))), RMul(RMul(Third, RSq(k)), RCube(b)))

\* ---- Truth ----
TSphere(r) == SphereSlab(r, RNeg(r), r)
TCap(r, h) == SphereSlab(r, RSub(r, h), r)                                    \* cap of height h (0 <= h <= 2r)
TFrustum(r1, r2, h) == ConeSlab(r1, RDiv(RSub(r2, r1), h), h)
TLens(r1, r2, d) ==                                                          \* two balls, centres d apart
    IF RLe(RAdd(r1, r2), d) THEN Zero
    ELSE IF RLe(d, IF RLe(r2, r1) THEN RSub(r1, r2) ELSE RSub(r2, r1)) THEN TSphere(RMin(r1, r2))
    ELSE LET x0 == RDiv(RAdd(RSq(d), RSub(RSq(r1), RSq(r2))), RMul(R(2), d)) IN          \* radical plane, measured from the first centre
         RAdd(SphereSlab(r1, x0, r1), SphereSlab(r2, RSub(d, x0), r2))
TUnion2(r1, r2, d) == RSub(RAdd(TSphere(r1), TSphere(r2)), TLens(r1, r2, d))
\* ball of radius r1 at the origin with a frustum from x = 0 (radius r1) to x = h (radius r2): integral of min(section radii squared)
TSphFru(r1, r2, h) ==
    LET k == RDiv(RSub(r2, r1), h)  H == RMin(h, r1) IN
    IF RLe(Zero, k) THEN SphereSlab(r1, Zero, H)
    ELSE LET xs == RDiv(RMul(R(-2), RMul(r1, k)), RAdd(RSq(k), One))         \* where the cone leaves the ball
             m  == RMin(xs, H) IN
         RAdd(ConeSlab(r1, k, m), SphereSlab(r1, m, H))
TSphFruUnion(r1, r2, h) == RSub(RAdd(TSphere(r1), TFrustum(r1, r2, h)), TSphFru(r1, r2, h))

\* ---- Code ----
CSphere(r) == RMul(Q(4, 3), RCube(r))
CCap(r, h) == RMul(Third, RMul(RSq(h), RSub(RMul(R(3), r), h)))
CFrustum(r1, r2, h) == RMul(Third, RMul(h, RAdd(RAdd(RSq(r1), RMul(r1, r2)), RSq(r2))))
CLens(r1, r2, d) ==
    IF RLt(RAdd(r1, r2), d) THEN Zero
    ELSE IF RLe(d, IF RLe(r2, r1) THEN RSub(r1, r2) ELSE RSub(r2, r1)) THEN CSphere(RMin(r1, r2))
    ELSE LET part1 == RMul(RDiv(One, RMul(R(12), d)), RSq(RSub(RAdd(r1, r2), d)))
             part2 == RAdd(RAdd(RSub(RAdd(RSq(d), RMul(RMul(R(2), d), r1)), RMul(R(3), RSq(r1))), RSub(RMul(RMul(R(2), d), r2), RMul(R(3), RSq(r2)))), RMul(R(6), RMul(r1, r2))) IN
         RMul(part1, part2)
CUnion2(r1, r2, d) == RSub(RAdd(CSphere(r1), CSphere(r2)), CLens(r1, r2, d))
\* calc_concentric_intersect_volume; Region names the branch taken (coverage)
Region(r1, r2, h) ==
    IF RLe(r1, r2) THEN (IF RLe(r1, h) THEN "wide-high" ELSE "wide-low")
    ELSE LET dr == RSub(r2, r1)  t == RDiv(RMul(R(-2), RMul(r1, dr)), RAdd(RSq(h), RSq(dr))) IN
         IF RLt(One, t) THEN "narrow-inside" ELSE IF RLe(r1, h) THEN "narrow-high" ELSE "narrow-low"
CSphFru(r1, r2, h) ==
    IF RLe(r1, r2) THEN (IF RLe(r1, h) THEN CCap(r1, r1) ELSE RSub(CCap(r1, r1), CCap(r1, RSub(r1, h))))
    ELSE LET dr == RSub(r2, r1)
             t  == RDiv(RMul(R(-2), RMul(r1, dr)), RAdd(RSq(h), RSq(dr)))   \* the generatrix meets the sphere again at parameter t
             h1 == RMul(t, h)  r3 == RAdd(r1, RMul(t, dr)) IN
         IF RLt(One, t) THEN CFrustum(r1, r2, h)
         ELSE IF RLe(r1, h) THEN RAdd(CCap(r1, RSub(r1, h1)), CFrustum(r1, r3, h1))
         ELSE RSub(RAdd(CCap(r1, RSub(r1, h1)), CFrustum(r1, r3, h1)), CCap(r1, RSub(r1, h)))
CSphFruUnion(r1, r2, h) == RSub(RAdd(CSphere(r1), CFrustum(r1, r2, h)), CSphFru(r1, r2, h))

Truth(c) == CASE c.k = "sphere"  -> TSphere(R(c.a))
              [] c.k = "cap"     -> TCap(R(c.a), R(c.b))
              [] c.k = "frustum" -> TFrustum(R(c.a), R(c.b), R(c.c))
              [] c.k = "lens"    -> TLens(R(c.a), R(c.b), R(c.c))
              [] c.k = "union2"  -> TUnion2(R(c.a), R(c.b), R(c.c))
              [] c.k = "sphfru"  -> TSphFru(R(c.a), R(c.b), R(c.c))
              [] c.k = "sphfruU" -> TSphFruUnion(R(c.a), R(c.b), R(c.c))
Code(c)  == CASE c.k = "sphere"  -> CSphere(R(c.a))
              [] c.k = "cap"     -> CCap(R(c.a), R(c.b))
              [] c.k = "frustum" -> CFrustum(R(c.a), R(c.b), R(c.c))
              [] c.k = "lens"    -> CLens(R(c.a), R(c.b), R(c.c))
              [] c.k = "union2"  -> CUnion2(R(c.a), R(c.b), R(c.c))
              [] c.k = "sphfru"  -> CSphFru(R(c.a), R(c.b), R(c.c))
              [] c.k = "sphfruU" -> CSphFruUnion(R(c.a), R(c.b), R(c.c))
=============================================================================
