CONSTANT MaxN = 4
CONSTANT CloseStem = FALSE
INIT Init
NEXT Next
INVARIANT AlgIsSpec
