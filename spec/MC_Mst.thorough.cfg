CONSTANTS Inst = "all" UseWrongAxis = FALSE
SPECIFICATION Spec
INVARIANT MaskIsAdmissible
INVARIANT DegreeAlways
INVARIANT SpanningAtEnd
INVARIANT OptimalAtEnd
PROPERTY GreedyStep
PROPERTY Completes
