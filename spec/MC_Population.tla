--------------------------- MODULE MC_Population ---------------------------
(***************************************************************************)
(* Every history of at most MaxSteps container operations over the three   *)
(* directories Dirs (two overlapping file sets in nested folders and an    *)
(* empty directory).  Design properties checked in every state:            *)
(*   AtMostOnce, OnDemand, Served  (the laziness statements of C19)        *)
(*   IndexRight  : every container hands out, for every key, the file that *)
(*                 its flattened contents list at that position            *)
(*   ChainRight  : a chain is the concatenation of its members, in order   *)
(* and, as a separate ASSUME, the code's binary search over prefix sums    *)
(* finds the member that the declarative definition designates, for every  *)
(* vector of member sizes (empty members included).                        *)
(* With Emit = TRUE the run prints every maximal history for the executor. *)
(***************************************************************************)
EXTENDS Population
CONSTANTS MaxSteps, MaxObjs, Emit, Wide, Only
VARIABLES s, hist, used
Dirs == << <<"a", "b/c", "d">>, <<"b/c", "e", "a">>, <<>> >>
Keys   == IF Wide THEN {0, -1, 1, 2, -3, 3, -4} ELSE {0, -1, 3}
Slices == IF Wide THEN { <<None, None, 1>>, <<1, None, 1>>, <<None, -1, 1>>, <<None, None, 2>>, <<None, None, -1>>, <<-2, None, 1>>, <<1, 2, 1>> }
          ELSE { <<1, None, 1>>, <<None, None, -1>> }
Init == s = S0(Dirs) /\ hist = <<>> /\ used = {}
Next == /\ Len(hist) < MaxSteps
        /\ \E act \in { x \in Enabled(Dirs, s, Keys, Slices, MaxObjs, used) : Only = {} \/ x.a \in Only } :
              /\ s' = Do(Dirs, s, act).s
              /\ hist' = (IF Emit THEN Append(hist, act) ELSE Append(hist, 0))
              /\ used' = (IF act.a = "from_swc" THEN used \cup {act.r} ELSE used)

\* flattened contents of a container, declaratively
RECURSIVE Flat(_, _)
Flat(st, o) == LET ob == st.objs[o] IN
    CASE ob.k = "lazy"  -> ob.files
      [] ob.k = "nest"  -> LET b == Flat(st, ob.base) IN [j \in DOMAIN ob.idx |-> b[Norm(ob.idx[j], Len(b)) + 1]]
      [] ob.k = "pop"   -> Flat(st, ob.tr)
      [] ob.k = "chain" -> LET RECURSIVE Cat(_)
                               Cat(j) == IF j > Len(ob.mem) THEN <<>> ELSE Flat(st, ob.mem[j]) \o Cat(j + 1) IN Cat(1)
      [] ob.k = "zip"   -> <<>>
Containers == Objs(s, {"lazy", "nest", "pop", "chain"})
IndexRight == \A o \in Containers : LET fl == Flat(s, o) IN
                 /\ LenOf(s, o) = Len(fl)
                 /\ \A key \in -Len(fl) - 1 .. Len(fl) :
                       IF Valid(key, Len(fl)) THEN FileAt(s, Where(s, o, key)) = fl[Norm(key, Len(fl)) + 1] ELSE Where(s, o, key) = <<0, 0>>
LazyInv   == AtMostOnce(s) /\ OnDemand(s) /\ Served(s)
\* reads only grow, and only for the file(s) the step hands out or probes
OnlyOnDemandStep == [][\A f \in DOMAIN s.reads : s'.reads[f] > s.reads[f] => f \in (s'.req \cup s'.probe)]_<<s, hist, used>>

\* the code's binary search over cumsum (ChainTrees.__getitem__), for every vector of member sizes
RECURSIVE Bin(_, _, _, _)
Bin(cum, idx, i, j) == IF i < j THEN LET mid == (i + j) \div 2 IN IF cum[mid + 1] <= idx THEN Bin(cum, idx, mid + 1, j) ELSE Bin(cum, idx, i, mid) ELSE i
SizeVecs == UNION { [1 .. m -> 0 .. 3] : m \in 1 .. 4 }
CumOf(v) == [q \in 1 .. Len(v) + 1 |-> SumLens([x \in 1 .. q - 1 |-> v[x]])]        \* cumsum[0] = 0 at position 1
ASSUME \A v \in SizeVecs : \A idx \in 0 .. SumLens(v) - 1 :
          LET cum == CumOf(v)  m == Bin(cum, idx, 1, Len(v)) IN cum[m] <= idx /\ idx < cum[m + 1]

EmitHist == (Emit /\ (Len(hist) = MaxSteps \/ Enabled(Dirs, s, Keys, Slices, MaxObjs, used) = {})) => PrintT(<<"H", hist>>)
=============================================================================
