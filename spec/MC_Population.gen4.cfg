CONSTANTS MaxSteps = 4 MaxObjs = 6 Emit = TRUE Wide = FALSE Only = {}
INIT Init
NEXT Next
INVARIANT EmitHist
