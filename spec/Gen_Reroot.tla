----------------------------- MODULE Gen_Reroot -----------------------------
EXTENDS Reroot, SequencesExt, Json, IOUtils
CONSTANTS MaxN, MaxN1, MaxN2, MaxNS
Attr(n, a) == [k \in 1 .. n |-> <<1 + ((k - 1 + a) % 3), (7 * (k - 1)) % 5, (3 * (k - 1)) % 4, 1 + ((k - 1) % 3)>>]   \* a: root type 1 (soma), 2, 3
CRedir == UNION { { [op |-> "redirect", P |-> P, attr |-> Attr(Len(P), a), i |-> i, sort |-> s] : i \in Nodes(P), s \in {0, 1}, a \in 0 .. 2 }
                  : P \in UNION { Topos(n) : n \in 1 .. MaxN } }
\* the same trees under numberings that put the root elsewhere (ids rotated by s)
Shift(P, s) == LET n == Len(P) IN [k \in 1 .. n |-> LET old == ((k - 1 - s + n) % n) + 1 IN IF P[old] = -1 THEN -1 ELSE (P[old] + s) % n]
CRedirS == UNION { { [op |-> "redirect", P |-> Shift(P, s), attr |-> Attr(Len(P), a), i |-> i, sort |-> srt, shift |-> s] :
                       i \in Nodes(P), srt \in {0, 1}, a \in 0 .. 2, s \in 1 .. Len(P) - 1 }
                   : P \in UNION { Topos(n) : n \in 2 .. MaxNS } }
\* root-to-tip paths reversed: every topology under every numbering (so that most paths are not numbered 0..n-1 in their tree), every tip, root types as above
CRev == UNION { { [op |-> "reverse_path", P |-> P, attr |-> Attr(Len(P), a), i |-> i] : i \in Tips(P), a \in 0 .. 2 }
                : P \in UNION { Topos(n) : n \in 1 .. MaxN } }
Pos1(n)  == [k \in 1 .. n |-> <<10 * (k - 1), k - 1, 0>>]
Base2(n) == [k \in 1 .. n |-> <<3 * (k - 1) + 1, 5, 7 * (k - 1) + 2>>]
Ty1(n)   == [k \in 1 .. n |-> 1 + ((k - 1) % 3)]
Ty2(n)   == [k \in 1 .. n |-> 2 + ((k - 1) % 3)]
Rad(n, b) == [k \in 1 .. n |-> b + ((k - 1) % 2)]
Neg2(n)  == [k \in 1 .. n |-> <<-(3 * (k - 1) + 1), -5, -(7 * (k - 1) + 2)>>]      \* tree 2 below tree 1 on every axis
\* co = 1: the junction of tree 2 already lies on node i;  co = 3: it lies one lattice step away from it on every axis (concretised with a
\* small unit far from the origin, where "one step" is below any tolerance relative to the size of the coordinates)
Pos2(n1, n2, i, j, co) == IF co = 0 THEN Base2(n2) ELSE IF co = 2 THEN Neg2(n2)
                          ELSE [k \in 1 .. n2 |-> Add(Add(Base2(n2)[k], Sub(Pos1(n1)[i + 1], Base2(n2)[j + 1])), IF co = 3 THEN <<1, 1, 1>> ELSE Zero3)]
CCat == UNION { UNION { { [op |-> "cat", P1 |-> P1, P2 |-> P2, i |-> i, j |-> j, tr |-> tr, co |-> co,
                           pos1 |-> Pos1(Len(P1)), pos2 |-> Pos2(Len(P1), Len(P2), i, j, co),
                           ty1 |-> Ty1(Len(P1)), ty2 |-> Ty2(Len(P2)), rad1 |-> Rad(Len(P1), 1), rad2 |-> Rad(Len(P2), 2),
                           \* pre2 > 0: the second tree is first re-rooted at node pre2 with sorting switched off, so that its root is NOT its node 0
                           pre2 |-> IF (i + j + co) % 3 = 1 /\ Len(P2) >= 2 THEN 1 + ((i + j) % (Len(P2) - 1)) ELSE 0]
                          : i \in Nodes(P1), j \in Nodes(P2), tr \in {0, 1}, co \in {0, 1, 2, 3} }
                        : P2 \in UNION { Topos(n) : n \in 1 .. MaxN2 } } : P1 \in UNION { Topos(n) : n \in 1 .. MaxN1 } }
AllSeq   == SetToSeq(CRedir \cup CCat) \o SetToSeq(CRedirS) \o SetToSeq(CRev)
Numbered == [k \in 1 .. Len(AllSeq) |-> [cid |-> k] @@ AllSeq[k]]
VARIABLE done
Init == done = ndJsonSerialize(IOEnv.OUT, Numbered)
Next == FALSE /\ UNCHANGED done
Emitted == done => PrintT(<<"CASES", Len(AllSeq)>>)
=============================================================================
