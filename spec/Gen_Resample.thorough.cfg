CONSTANTS MaxN = 5 NV = 4
INIT Init
NEXT Next
INVARIANT Emitted
