----------------------------- MODULE MC_TreeHeap -----------------------------
(***************************************************************************)
(* Design-level model of the storage discipline behind C03.                *)
(* Memory is a set of cells, each holding one column vector; a tree object *)
(* is (pid cell, data cell).  The library's operations are compositions of *)
(* three primitives, modelled as the code uses them:                       *)
(*   CopyOp     deepcopy (Tree.copy) then rebind columns  -> fresh cells   *)
(*   SubsetOp   fancy-index + .copy() (to_subtree_impl)    -> fresh cells  *)
(*   PermuteOp  fancy-index by id_map (_sort_tree on a copy) -> fresh cells*)
(*   CatOp      np.concatenate of two copies               -> fresh cells  *)
(*   WriteOp    assignment through a node handle: in-place write           *)
(* Named deviations (NOT part of Next; enabled only by the sensitivity     *)
(* configs, which TLC must reject):                                        *)
(*   AliasOp    result keeps the source's cell (a dropped .copy())         *)
(*   InPlaceOp  operation works on the caller's arrays (a dropped          *)
(*              tree.copy() before `ndata[k] += ...`)                      *)
(***************************************************************************)
EXTENDS SwcBase
CONSTANTS MaxObjs, AllowAlias, AllowInPlace
VARIABLES mem, objs, last      \* mem: cell -> vector; objs: seq of [pid |-> cell, x |-> cell]; last: <<action, object written>>
vars == <<mem, objs, last>>

Fresh(k) == Len(mem) + k       \* cells are numbered 1..Len(mem)
Val(o)   == [pid |-> mem[objs[o].pid], x |-> mem[objs[o].x]]
Trees3   == UNION { Topos(n) : n \in 1 .. 3 }
Init == /\ \E P \in Trees3 : mem = << P, [k \in 1 .. Len(P) |-> 10 + k] >>
        /\ objs = << [pid |-> 1, x |-> 2] >>
        /\ last = <<"init", 0>>
New(pv, xv, what) == /\ mem' = mem \o <<pv, xv>>
                     /\ objs' = Append(objs, [pid |-> Fresh(1), x |-> Fresh(2)])
                     /\ last' = <<what, 0>>
Room == Len(objs) < MaxObjs
CopyOp(o)    == Room /\ New(Val(o).pid, [k \in DOMAIN Val(o).x |-> Val(o).x[k] + 100], "pure")       \* e.g. a geometric transform
SubsetOp(o)  == Room /\ Len(Val(o).pid) >= 2 /\ LET P == Val(o).pid  t == CHOOSE t \in Tips(P) : t # 0
                                                    keep == SeqOfSet(Nodes(P) \ {t}) IN
                        New([k \in 1 .. Len(keep) |-> IF P[keep[k] + 1] = -1 THEN -1 ELSE PosOf(keep, P[keep[k] + 1])],
                            [k \in 1 .. Len(keep) |-> Val(o).x[keep[k] + 1]], "pure")
CatOp(a, b)  == Room /\ Len(Val(a).pid) + Len(Val(b).pid) <= 4 /\
                        LET na == Len(Val(a).pid) IN
                        New(Val(a).pid \o [k \in 1 .. Len(Val(b).pid) |-> IF Val(b).pid[k] = -1 THEN 0 ELSE Val(b).pid[k] + na],
                            Val(a).x \o Val(b).x, "pure")
WriteOp(o, i) == /\ i \in 1 .. Len(Val(o).x)
                 /\ Val(o).x[i] < 500
                 /\ mem' = [mem EXCEPT ![objs[o].x][i] = @ + 1000]
                 /\ UNCHANGED objs /\ last' = <<"write", o>>
\* --- deviations ---
AliasOp(o)   == AllowAlias /\ Room /\ mem' = Append(mem, Val(o).pid) /\ objs' = Append(objs, [pid |-> Fresh(1), x |-> objs[o].x]) /\ last' = <<"pure", 0>>
InPlaceOp(o) == AllowInPlace /\ Room /\ Val(o).x[1] < 500
                /\ mem' = [mem EXCEPT ![objs[o].x] = [k \in DOMAIN @ |-> @[k] + 100]] \o <<Val(o).pid, Val(o).x>>
                /\ objs' = Append(objs, [pid |-> Fresh(1), x |-> Fresh(2)]) /\ last' = <<"pure", 0>>

DoCopy    == \E o \in DOMAIN objs : CopyOp(o)
DoSubset  == \E o \in DOMAIN objs : SubsetOp(o)
DoCat     == \E a, b \in DOMAIN objs : CatOp(a, b)
DoWrite   == \E o \in DOMAIN objs, i \in 1 .. 4 : WriteOp(o, i)
DoAlias   == \E o \in DOMAIN objs : AliasOp(o)
DoInPlace == \E o \in DOMAIN objs : InPlaceOp(o)
Next == DoCopy \/ DoSubset \/ DoCat \/ DoWrite \/ DoAlias \/ DoInPlace
Spec == Init /\ [][Next]_vars

CellsOf(o) == {objs[o].pid, objs[o].x}
AllWF      == \A o \in DOMAIN objs : WF(Val(o).pid)
NoSharing  == \A o, p \in DOMAIN objs : o # p => CellsOf(o) \cap CellsOf(p) = {}
\* action properties: an operation never changes an existing object; a write changes only the object written through
Pure       == [][ last'[1] = "pure"  => \A o \in DOMAIN objs : [pid |-> mem'[objs[o].pid], x |-> mem'[objs[o].x]] = Val(o) ]_vars
Isolation  == [][ last'[1] = "write" => \A o \in DOMAIN objs : o # last'[2] => [pid |-> mem'[objs[o].pid], x |-> mem'[objs[o].x]] = Val(o) ]_vars
=============================================================================
