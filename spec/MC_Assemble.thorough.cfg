CONSTANTS
  Pool <- PoolB
  MaxLines = 4
  Und = TRUE
  Thre2 = 1
  Mode = "asis"
SPECIFICATION Spec
INVARIANT ClosedAreClasses
INVARIANT FinishedIsRight
INVARIANT IdsArePositions
PROPERTY Terminates
