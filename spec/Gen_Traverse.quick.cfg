CONSTANT MaxN = 5
INIT Init
NEXT Next
INVARIANT Emitted
