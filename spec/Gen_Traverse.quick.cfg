CONSTANTS MaxN = 5 MaxNHist = 4
INIT Init
NEXT Next
INVARIANT Emitted
