CONSTANT MaxN = 6
CONSTANT Alg = "cyc"
SPECIFICATION Spec
INVARIANT JumpRight
INVARIANT CycRight
PROPERTY Terminates
