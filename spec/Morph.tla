-------------------------------- MODULE Morph --------------------------------
(***************************************************************************)
(* C10 / C11 — morphometrics from their definitions, on lattice trees.     *)
(* A tree is a topology P (SwcBase) with integer positions pos[i+1]; every *)
(* parent-child offset is zero, axis-parallel or a 3-4-5 step, so that     *)
(* every segment length is an integer.  Quantities that involve a square   *)
(* root elsewhere (straight-line distances, angles) are given by their     *)
(* exact squared / dot-product form.  Everything here is a function of     *)
(* the parent relation and of inter-node distances only, hence independent *)
(* of pose and numbering by construction (C11).                            *)
(***************************************************************************)
EXTENDS Decomp

Sub3(a, b) == <<a[1] - b[1], a[2] - b[2], a[3] - b[3]>>
Dot3(a, b) == a[1] * b[1] + a[2] * b[2] + a[3] * b[3]
Cross3(a, b) == <<a[2] * b[3] - a[3] * b[2], a[3] * b[1] - a[1] * b[3], a[1] * b[2] - a[2] * b[1]>>
Pos(pos, i) == pos[i + 1]
D2(pos, i, j) == LET d == Sub3(Pos(pos, i), Pos(pos, j)) IN Dot3(d, d)
\* integer square root by Newton's iteration (floor; LatticeOK below requires every squared segment length to be a perfect square)
RECURSIVE Newton(_, _)
Newton(n, x) == LET y == (x + n \div x) \div 2 IN IF y >= x THEN x ELSE Newton(n, y)
ISqrt(n, g) == IF n = 0 THEN 0 ELSE Newton(n, n)
ELen(P, pos, i) == ISqrt(D2(pos, i, Par(P, i)), 0)                       \* length of the segment into node i (an integer by construction)
LatticeOK(P, pos) == \A i \in Nodes(P) \ {0} : LET l == ELen(P, pos, i) IN l * l = D2(pos, i, Par(P, i))
TreeLength(P, pos) == SumOver(Nodes(P) \ {0}, [i \in Nodes(P) \ {0} |-> ELen(P, pos, i)])
SeqLength(P, pos, b) == SumSeq([k \in 1 .. Len(b) - 1 |-> ELen(P, pos, b[k + 1])])
PathDistance(P, pos, i) == SeqLength(P, pos, PathTo(P, i))
\* tortuosity / contraction = straight-line distance over path length: given as <<straight^2, length>> (the library's convention for length 0: 1)
StraightOver(P, pos, b) == <<D2(pos, b[1], b[Len(b)]), SeqLength(P, pos, b)>>
\* branch order, two conventions: depth in the branch tree (critical nodes), furcations on the root path inclusive (L-Measure)
RECURSIVE BTDepth(_, _)
BTDepth(P, k) == IF k = 0 THEN 0 ELSE 1 + BTDepth(P, BTParent(P, k))
LMOrder(P, i) == Cardinality({ a \in Anc(P, i) : IsFurc(P, a) })
TermDegree(P, i) == Cardinality(Tips(P) \cap Desc(P, i))
KidSeq(P, i) == SetToSeqKids(P, i)
PartAsym(P, i) == LET n1 == TermDegree(P, KidSeq(P, i)[1])  n2 == TermDegree(P, KidSeq(P, i)[2]) IN
                  IF n1 = n2 THEN <<0, 1>> ELSE <<Abs(n1 - n2), n1 + n2 - 2>>
\* Sholl: segments whose end radii about the root straddle the radius rho, rho^2 = num/den:  min <= rho < max
ShollCount(P, pos, num, den) == Cardinality({ i \in Nodes(P) \ {0} :
        LET a == D2(pos, 0, i)  b == D2(pos, 0, Par(P, i)) IN Min(a, b) * den <= num /\ num < Max(a, b) * den })
\* the same with ties (an end point exactly on the sphere) counted either way: bounds for radii the float pipeline cannot hit exactly
ShollLo(P, pos, num, den) == Cardinality({ i \in Nodes(P) \ {0} : LET a == D2(pos, 0, i)  b == D2(pos, 0, Par(P, i)) IN Min(a, b) * den < num /\ num < Max(a, b) * den })
ShollHi(P, pos, num, den) == Cardinality({ i \in Nodes(P) \ {0} : LET a == D2(pos, 0, i)  b == D2(pos, 0, Par(P, i)) IN Min(a, b) * den <= num /\ num <= Max(a, b) * den /\ a # b })
MaxRadial2(P, pos) == LET S == { D2(pos, 0, i) : i \in Nodes(P) } IN CHOOSE m \in S : \A x \in S : x <= m
\* bifurcation geometry: an angle is given by <<dot, |a|^2, |b|^2>>
RemoteEnd(P, c) == LET ch == ChainFrom(P, c) IN ch[Len(ch)]
VLocal(P, pos, b, k)  == Sub3(Pos(pos, KidSeq(P, b)[k]), Pos(pos, b))
VRemote(P, pos, b, k) == Sub3(Pos(pos, RemoteEnd(P, KidSeq(P, b)[k])), Pos(pos, b))
Ang(u, v) == <<Dot3(u, v), Dot3(u, u), Dot3(v, v)>>
AmplLocal(P, pos, b)  == Ang(VLocal(P, pos, b, 1), VLocal(P, pos, b, 2))
AmplRemote(P, pos, b) == Ang(VRemote(P, pos, b, 1), VRemote(P, pos, b, 2))
UpVec(P, pos, b) == Sub3(Pos(pos, Par(P, b)), Pos(pos, b))
TiltLocal(P, pos, b)  == <<Ang(UpVec(P, pos, b), VLocal(P, pos, b, 1)), Ang(UpVec(P, pos, b), VLocal(P, pos, b, 2))>>       \* the smaller of the two angles
TiltRemote(P, pos, b) == <<Ang(UpVec(P, pos, b), VRemote(P, pos, b, 1)), Ang(UpVec(P, pos, b), VRemote(P, pos, b, 2))>>
\* torque: angle between the plane of this bifurcation and the plane of the previous one (the critical node above it)
PrevCritical(P, b) == BTParent(P, b)
TorqueLocal(P, pos, b)  == Ang(Cross3(VLocal(P, pos, PrevCritical(P, b), 1), VLocal(P, pos, PrevCritical(P, b), 2)), Cross3(VLocal(P, pos, b, 1), VLocal(P, pos, b, 2)))
TorqueRemote(P, pos, b) == Ang(Cross3(VRemote(P, pos, PrevCritical(P, b), 1), VRemote(P, pos, PrevCritical(P, b), 2)), Cross3(VRemote(P, pos, b, 1), VRemote(P, pos, b, 2)))
Bifs(P) == { i \in Nodes(P) : Cardinality(Kids(P, i)) = 2 }

\* ---- a long stem in front of a tree (path distances of 2 * 10^5 lattice units before the first branch point): lengths only -------------------
\* the stem walks StemN times along the edges of a cube of side StemK (coordinates stay small, path distance grows), then one unit step leads to the tree's root
StemN == 20
StemK == 10000
CubeWalk == << <<0, 0, 0>>, <<1, 0, 0>>, <<1, 1, 0>>, <<0, 1, 0>>, <<0, 1, 1>>, <<1, 1, 1>>, <<1, 0, 1>>, <<0, 0, 1>> >>
StemAt(j) == LET g == CubeWalk[(j % 8) + 1] IN <<StemK * g[1], StemK * g[2], StemK * g[3]>>                       \* stem node j, j = 0 .. StemN
StemP(P)  == [k \in 1 .. StemN + 1 + Len(P) |-> IF k = 1 THEN -1 ELSE IF k <= StemN + 1 THEN k - 2
                                                 ELSE IF P[k - StemN - 1] = -1 THEN StemN ELSE P[k - StemN - 1] + StemN + 1]
StemPos(P, pos) == [k \in 1 .. StemN + 1 + Len(P) |-> IF k <= StemN + 1 THEN StemAt(k - 1)
                                                       ELSE LET e == StemAt(StemN)  q == pos[k - StemN - 1] IN <<e[1] + 1 + q[1], e[2] + q[2], e[3] + q[3]>>]
\* obs = length * 1000: two units, or two millionths of a long length (single-precision sums)
CloseL(obs, exp) == Abs(obs - exp * 1000) <= 2 + exp \div 500

\* ---- comparing observed floats (quantised) with the exact forms ----
\* obs = value * 1000 (already divided by the scale factor): integer expected value
CloseI(obs, exp) == Abs(obs - exp * 1000) <= 2 + exp \div 20000
\* obs = ratio * 1000 against sqrt(sq) / len:  (obs * len)^2 ~ sq * 10^6
CloseRatio(obs, sqlen) == IF sqlen[2] = 0 THEN obs = 1000
                          ELSE LET a == obs * sqlen[2] IN Abs(a * a - sqlen[1] * 1000000) <= 2 * (2 * a + 1) * sqlen[2] + 4 * sqlen[2] * sqlen[2]
\* obs = distance * 1000 against sqrt(sq)
CloseRoot(obs, sq) == Abs(obs * obs - sq * 1000000) <= 6 * obs + 9
\* obs = cos(angle) * 1000 against dot / sqrt(na * nb)   (na, nb > 0); the precision is lowered for long vectors to stay within 32-bit integers
CloseCosAt(obs, a, S) == LET o == obs \div (1000 \div S) IN
                         Abs(o * o * a[2] * a[3] - a[1] * a[1] * S * S) <= (8 * Abs(o) + 16) * a[2] * a[3]
CloseCos(obs, a) == /\ (a[1] > 0 => obs > -40) /\ (a[1] < 0 => obs < 40)
                    /\ IF a[2] * a[3] <= 2000 THEN CloseCosAt(obs, a, 1000)
                       ELSE IF a[2] * a[3] <= 200000 THEN CloseCosAt(obs, a, 100)
                       ELSE IF a[2] * a[3] <= 20000000 THEN CloseCosAt(obs, a, 10) ELSE TRUE
\* the cosine of the smaller of two angles is the larger cosine
BiggerCos(a, b) == LET sa == IF a[1] >= 0 THEN 1 ELSE -1  sb == IF b[1] >= 0 THEN 1 ELSE -1 IN
                   IF sa * a[1] * a[1] * b[2] * b[3] >= sb * b[1] * b[1] * a[2] * a[3] THEN a ELSE b
=============================================================================
