------------------------------ MODULE Assemble ------------------------------
(* X03 — algorithm layer of swcgeom.transforms.LinesToTree (the code's loops, one action per iteration); the property layer is AssembleProp.tla *)
EXTENDS AssembleProp
(* ------------------------------ algorithm layer ------------------------------ *)
CONSTANTS Pool,        \* the lines an instance is assembled from
          MaxLines, Und, Thre2,
          Mode         \* "asis" | "onepass" (named deviation: the scan is not restarted after a line was attached)
VARIABLES lines, nodes, rest, start, cursor, phase, comp, subtrees
vars == <<lines, nodes, rest, start, cursor, phase, comp, subtrees>>

Init == /\ lines \in UNION { [1 .. n -> Pool] : n \in 1 .. MaxLines }
        /\ nodes = <<>> /\ rest = [i \in 1 .. Len(lines) |-> i] /\ start = 0 /\ cursor = 1
        /\ phase = "start" /\ comp = <<>> /\ subtrees = <<>>

Chain(ln, L, base) == [k \in 1 .. Len(L) |-> [ln |-> ln, k |-> k, pt |-> L[k], id |-> base + k - 1, pid |-> IF k = 1 THEN -1 ELSE base + k - 2]]
RemoveAt(s, j) == [i \in 1 .. Len(s) - 1 |-> IF i < j THEN s[i] ELSE s[i + 1]]

Start == /\ phase = "start" /\ rest # <<>>
         /\ nodes' = nodes \o Chain(rest[1], lines[rest[1]], Len(nodes))
         /\ start' = Len(nodes) /\ rest' = Tail(rest) /\ cursor' = 1 /\ phase' = "scan"
         /\ subtrees' = Append(subtrees, {rest[1]})
         /\ UNCHANGED <<lines, comp>>

Sub == start + 1 .. Len(nodes)
MinD2(q) == Min({ D2(nodes[i].pt, q) : i \in Sub })
ArgMin(q) == Min({ i \in Sub : D2(nodes[i].pt, q) = MinD2(q) })
Cands == { <<j, e>> \in (cursor .. Len(rest)) \X (1 .. Len(Ends(Und))) :
              MinD2(lines[rest[j]][EndK(lines[rest[j]], Ends(Und)[e])]) <= Thre2 }
FirstCand == CHOOSE c \in Cands : \A d \in Cands : c[1] < d[1] \/ (c[1] = d[1] /\ c[2] <= d[2])

Attach == /\ phase = "scan" /\ Cands # {}
          /\ LET j == FirstCand[1]  p == Ends(Und)[FirstCand[2]]
                 ln == rest[j]  L == lines[ln]
                 q == L[EndK(L, p)]
                 ind == ArgMin(q)
                 ks == IF MinD2(q) = 0 THEN (IF p = 0 THEN [t \in 1 .. Len(L) - 1 |-> t + 1] ELSE [t \in 1 .. Len(L) - 1 |-> t])
                       ELSE [t \in 1 .. Len(L) |-> t]
                 m == Len(ks)  base == Len(nodes)
                 new == [t \in 1 .. m |-> [ln |-> ln, k |-> ks[t], pt |-> L[ks[t]], id |-> base + t - 1,
                                          pid |-> IF p = 0 THEN (IF t = 1 THEN nodes[ind].id ELSE base + t - 2)
                                                  ELSE (IF t = m THEN nodes[ind].id ELSE base + t)]] IN
             /\ m >= 1
             /\ nodes' = nodes \o new
             /\ rest' = RemoveAt(rest, j)
             /\ cursor' = IF Mode = "onepass" THEN j ELSE 1
             /\ subtrees' = [subtrees EXCEPT ![Len(subtrees)] = @ \cup {ln}]
          /\ UNCHANGED <<lines, start, phase, comp>>

Close == /\ phase = "scan" /\ Cands = {}
         /\ IF rest = <<>> THEN /\ phase' = "link"
                                /\ comp' = [i \in 1 .. Len(nodes) |-> CHOOSE c \in 1 .. Len(subtrees) : nodes[i].ln \in subtrees[c]]
                           ELSE phase' = "start" /\ comp' = comp
         /\ UNCHANGED <<lines, nodes, rest, start, cursor, subtrees>>

\* link_roots_to_nearest_: the next root (table order) that is not the first one
PendingRoots == { i \in 1 .. Len(nodes) : nodes[i].pid = -1 /\ i # 1 }
Link == /\ phase = "link" /\ PendingRoots # {}
        /\ LET i == Min(PendingRoots)
               out == { k \in 1 .. Len(nodes) : comp[k] # comp[i] }
               dmin == Min({ D2(nodes[k].pt, nodes[i].pt) : k \in out })
               tgt == Min({ k \in out : D2(nodes[k].pt, nodes[i].pt) = dmin }) IN
           /\ nodes' = [nodes EXCEPT ![i].pid = nodes[tgt].id]
           /\ comp' = [k \in 1 .. Len(nodes) |-> IF comp[k] = comp[i] THEN comp[tgt] ELSE comp[k]]
        /\ UNCHANGED <<lines, rest, start, cursor, phase, subtrees>>

Finish == /\ phase = "link" /\ PendingRoots = {} /\ phase' = "done"
          /\ UNCHANGED <<lines, nodes, rest, start, cursor, comp, subtrees>>

Done == phase = "done" /\ UNCHANGED vars
Next == Start \/ Attach \/ Close \/ Link \/ Finish \/ Done
Spec == Init /\ [][Next]_vars /\ WF_vars(Next)

Tab == { nodes[i] : i \in 1 .. Len(nodes) }
\* a closed sub-tree consists of exactly the lines of the corresponding class
ClosedAreClasses == phase \in {"link", "done"} => subtrees = AllClasses(lines, Und, Thre2)
\* the finished table satisfies the whole property layer
FinishedIsRight == phase = "done" => Why(lines, Und, Thre2, Tab) = ""
\* ids are table positions at every moment (what the code's id arithmetic relies on)
IdsArePositions == \A i \in 1 .. Len(nodes) : nodes[i].id = i - 1
Terminates == <>(phase = "done")
=============================================================================
