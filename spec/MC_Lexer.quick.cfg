CONSTANTS Alphabet <- SmallAlphabet MaxLen = 4
SPECIFICATION Spec
INVARIANT MachineIsFunction
INVARIANT NoInvention
PROPERTY Terminates
