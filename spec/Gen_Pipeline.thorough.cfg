CONSTANT M = 3
INIT Init
NEXT Next
INVARIANT Emitted
