-------------------------------- MODULE Mst --------------------------------
(***************************************************************************)
(* C17 — building a tree from a point cloud (PointsToCuntzMST/PointsToMST).*)
(*                                                                         *)
(* Points are 0 .. n-1 (0 = the soma or the first point).  D[i+1][j+1] is  *)
(* the distance between i and j as an integer (exact in the model-checked  *)
(* instances; quantised to 10^-4 in traces of the real code).  The         *)
(* balancing factor is the rational p/q, so the cost of attaching the      *)
(* unconnected point j to the connected point i is                         *)
(*        Cost(i,j) = q * D[i][j] + p * acc[i]      (in units of 1/q)      *)
(* k is the branching limit (-1: none), ex exempts the root from it.       *)
(***************************************************************************)
EXTENDS Integers, Sequences, FiniteSets, TLC, FiniteSetsExt

Pts(n) == 0 .. n - 1
Dist(D, i, j) == D[i + 1][j + 1]
\* state of the greedy construction: par (seq, -1 = none yet), acc (seq), cnt (children so far), conn (set)
G0(n) == [par |-> [x \in 1 .. n |-> -1], acc |-> [x \in 1 .. n |-> 0], cnt |-> [x \in 1 .. n |-> 0], conn |-> {0}]
Saturated(g, k, ex, i) == k # -1 /\ g.cnt[i + 1] >= k /\ (~ex \/ i # 0)
Admissible(g, n, k, ex) == { i \in g.conn : ~Saturated(g, k, ex, i) } \X (Pts(n) \ g.conn)
Cost(g, D, p, q, e) == q * Dist(D, e[1], e[2]) + p * g.acc[e[1] + 1]
\* (FoldSet is evaluated in linear time by TLC)
MinOf(S) == FoldSet(LAMBDA x, m : IF x < m THEN x ELSE m, 2000000000, S)
MaxOf(S) == FoldSet(LAMBDA x, m : IF x > m THEN x ELSE m, -2000000000, S)
MinCost(g, n, D, p, q, k, ex) == MinOf({ Cost(g, D, p, q, e) : e \in Admissible(g, n, k, ex) })
\* the greedy rule: the attached pair minimises the cost among the admissible pairs (within eps cost units)
Greedy(g, n, D, p, q, k, ex, eps) == LET A == Admissible(g, n, k, ex)
                                         m == MinOf({ Cost(g, D, p, q, e) : e \in A }) IN
                                     { e \in A : Cost(g, D, p, q, e) <= m + eps }
Attach(g, D, e) == [par  |-> [g.par EXCEPT ![e[2] + 1] = e[1]],
                    acc  |-> [g.acc EXCEPT ![e[2] + 1] = g.acc[e[1] + 1] + Dist(D, e[1], e[2])],
                    cnt  |-> [g.cnt EXCEPT ![e[1] + 1] = @ + 1],
                    conn |-> g.conn \cup {e[2]}]

\* ---- statements about a finished parent vector par (seq, par[1] = -1) ----
RECURSIVE UpTo(_, _, _)
UpTo(par, i, fuel) == IF i = -1 \/ fuel = 0 THEN {} ELSE {i} \cup UpTo(par, par[i + 1], fuel - 1)
SpanningWhy(par, n) ==
    IF Len(par) # n THEN "point-count"
    ELSE IF par[1] # -1 THEN "not-rooted-at-the-soma-or-first-point"
    ELSE IF \E i \in 1 .. n - 1 : par[i + 1] \notin Pts(n) THEN "point-without-parent"
    ELSE IF \E i \in Pts(n) : 0 \notin UpTo(par, i, n) THEN "not-a-single-tree"
    ELSE ""
NKids(par, i) == Cardinality({ j \in Pts(Len(par)) : par[j + 1] = i })
DegreeOK(par, k, ex) == k = -1 \/ \A i \in Pts(Len(par)) : NKids(par, i) <= k \/ (ex /\ i = 0)
\* minimum spanning tree by the cycle property: no non-tree edge is shorter (by more than tol) than the longest edge on the tree path it closes
RECURSIVE PathUp(_, _, _)
PathUp(par, i, fuel) == IF par[i + 1] = -1 \/ fuel = 0 THEN <<>> ELSE <<i>> \o PathUp(par, par[i + 1], fuel - 1)       \* nodes whose parent edge is on the path to the root
MaxEdgeOnPath(par, D, u, v) ==
    LET pu == PathUp(par, u, Len(par))  pv == PathUp(par, v, Len(par))
        su == { pu[x] : x \in DOMAIN pu }  sv == { pv[x] : x \in DOMAIN pv }
        only == (su \ sv) \cup (sv \ su)                                    \* edges (node -> its parent) on the tree path between u and v
        ws == { Dist(D, x, par[x + 1]) : x \in only } IN
    IF ws = {} THEN 0 ELSE MaxOf(ws)
IsMST(par, D, tol) == \A u, v \in Pts(Len(par)) : u < v => Dist(D, u, v) + tol >= MaxEdgeOnPath(par, D, u, v)
TotalLen(par, D) == LET RECURSIVE S(_)  S(i) == IF i = Len(par) THEN 0 ELSE Dist(D, i, par[i + 1]) + S(i + 1) IN IF Len(par) <= 1 THEN 0 ELSE S(1)
=============================================================================
