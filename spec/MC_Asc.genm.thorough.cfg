CONSTANTS MaxPts = 3 MaxDepth = 2 MaxAlts = 2 MaxMark = 2 Emit = TRUE Fixed = "asis" LeadingEmpty = TRUE
SPECIFICATION Spec
INVARIANT EmitDoc
