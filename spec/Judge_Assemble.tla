--------------------------- MODULE Judge_Assemble ---------------------------
(* Judge for X03: the table returned by swcgeom.transforms.LinesToTree against the declarative layer of Assemble.tla *)
EXTENDS AssembleProp, Json, IOUtils
Cases == ndJsonDeserialize(IOEnv.CASES)
Obs   == ndJsonDeserialize(IOEnv.OBS)
TabOf(o) == { [ln |-> o.tab[i][1], k |-> o.tab[i][2], pt |-> <<o.tab[i][3], o.tab[i][4]>>, id |-> o.tab[i][5], pid |-> o.tab[i][6]] : i \in 1 .. Len(o.tab) }
JWhy(c, o) ==
    IF o.err # "" THEN "raised-" \o o.err
    ELSE IF Cardinality(TabOf(o)) # Len(o.tab) THEN "a-point-was-lost-duplicated-or-moved"
    ELSE IF \E i \in 1 .. Len(o.tab) : o.tab[i][1] \notin 1 .. Len(c.lines) \/ o.tab[i][2] \notin 1 .. Len(c.lines[o.tab[i][1]]) THEN "a-point-was-lost-duplicated-or-moved"
    ELSE IF o.offgrid THEN "a-point-was-lost-duplicated-or-moved"
    ELSE IF o.changed THEN "attributes-changed"
    ELSE Why(c.lines, c.und, c.t2, TabOf(o))
VARIABLES l, bad
JInit == l = 0 /\ bad = <<>>
JNext == /\ l < Len(Obs)
         /\ l' = l + 1
         /\ LET o == Obs[l + 1]
                w == JWhy(Cases[o.cid], o) IN
            bad' = IF w = "" THEN bad ELSE Append(bad, <<o.cid, w>>)
Verdict == l = Len(Obs) => PrintT(<<"VERDICT", l, bad>>)
=============================================================================
