CONSTANTS RMax = 3 Extra = 1 NMax = 4
INIT Init
NEXT Next
INVARIANT Emitted
