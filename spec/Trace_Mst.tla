------------------------------ MODULE Trace_Mst ------------------------------
(***************************************************************************)
(* Validation of trees built by the real PointsToCuntzMST / PointsToMST.   *)
(* The construction order is not observable, so TLC re-runs the greedy     *)
(* machine of Mst.tla and lets the observed tree choose among the pairs    *)
(* the greedy rule allows: at every step some admissible pair whose cost   *)
(* is minimal (within eps, the stated rounding allowance) must be an edge  *)
(* of the observed tree.  One TLC state per attachment.  Afterwards the    *)
(* finished tree must span, respect the branching limit and, without       *)
(* balancing factor and limit, be a minimum spanning tree.                 *)
(* D is the distance matrix of the input points in units of 10^-4.         *)
(***************************************************************************)
EXTENDS Mst, Json, IOUtils
Cases == ndJsonDeserialize(IOEnv.CASES)
Obs   == ndJsonDeserialize(IOEnv.OBS)
VARIABLES ci, g, bad
Init == ci = 1 /\ g = <<>> /\ bad = <<>>
Fail(o, w) == bad' = Append(bad, <<o.cid, w>>) /\ ci' = ci + 1 /\ g' = <<>>
Step == /\ ci <= Len(Obs)
        /\ LET o == Obs[ci]
               c == Cases[o.cid] IN
           IF o.err # "" THEN Fail(o, "raised-" \o o.err)
           ELSE IF g = <<>> THEN
                LET w == SpanningWhy(o.par, c.n) IN
                IF w # "" THEN Fail(o, w)
                ELSE IF ~DegreeOK(o.par, c.k, c.ex) THEN Fail(o, "branching-limit")
                ELSE IF o.attrok # 1 THEN Fail(o, "points-not-kept")
                ELSE g' = G0(c.n) /\ ci' = ci /\ bad' = bad
           ELSE IF Cardinality(g.conn) < c.n THEN
                LET ok == { e \in Greedy(g, c.n, c.D, c.p, c.q, c.k, c.ex, c.eps) : o.par[e[2] + 1] = e[1] } IN
                IF ok = {} THEN Fail(o, "greedy-rule")
                ELSE LET m == MinOf({ Cost(g, c.D, c.p, c.q, f) : f \in ok })
                         e == CHOOSE e \in ok : Cost(g, c.D, c.p, c.q, e) = m IN
                     g' = Attach(g, c.D, e) /\ ci' = ci /\ bad' = bad
           ELSE IF c.p = 0 /\ c.k = -1 /\ ~IsMST(o.par, c.D, c.tol) THEN Fail(o, "not-a-minimum-spanning-tree")
           ELSE ci' = ci + 1 /\ g' = <<>> /\ bad' = bad
Next == Step
Verdict == ci = Len(Obs) + 1 => PrintT(<<"VERDICT", Len(Obs), bad>>)
=============================================================================
