CONSTANTS MaxN = 4 NV = 5
INIT Init
NEXT Next
INVARIANT Emitted
