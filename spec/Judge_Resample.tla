---------------------------- MODULE Judge_Resample ----------------------------
(* Judge for C16: raw results of the resamplers, the assembler and the smoothers (points in units of 10^-4) against Resample.tla *)
EXTENDS Resample, Json, IOUtils
Cases == ndJsonDeserialize(IOEnv.CASES)
Obs   == ndJsonDeserialize(IOEnv.OBS)
B1(c) == CHOOSE b \in BranchSet(c.P) : \A d \in BranchSet(c.P) : b[Len(b)] <= d[Len(d)]        \* the branch ending in the lowest-numbered critical node
WhyTreeResult(r, exp, expPairs, nBranches, what) ==
    IF r.err # "" THEN what \o "-raised-" \o r.err
    ELSE IF ~WF(r.pid) THEN what \o "-result-not-well-formed"
    ELSE IF Cardinality(BranchSet(r.pid)) # nBranches THEN what \o "-branch-count"
    ELSE IF ~ChainsMatch(ObsChains(r.pid, r.pts), exp) THEN what \o "-points"
    ELSE IF ~PairsMatch(ObsPairs(r.pid, r.pts), expPairs) THEN what \o "-connectivity"
    ELSE ""
PtsClose(op, ep) == Len(op) = Len(ep) /\ \A k \in 1 .. Len(ep) : ClosePt(op[k], ep[k])
Why(c, o) ==
    LET P == c.P  pos == c.pos  rad == c.rad  b1 == B1(c)
        nb == Cardinality(BranchSet(P))
        w1 == WhyTreeResult(o.iso, IsoTree(P, pos, rad, c.sp, c.adjust), IsoPairs(P, pos, rad, c.sp, c.adjust), nb, "resample")
        w2 == WhyTreeResult(o.same, SameTree(P, pos, rad), SamePairs(P, pos, rad), nb, "assemble") IN
    IF o.err # "" THEN "raised-" \o o.err
    ELSE IF ~AxisOK(P, pos) \/ ~CriticalsOK(P, pos) THEN "MACHINERY-case-outside-the-domain"
    ELSE IF w1 # "" THEN w1
    ELSE IF o.iso.rtype # c.rtype THEN "resample-root-type"
    ELSE IF o.iso.len > 10000 * SumOver(Nodes(P) \ {0}, [i \in Nodes(P) \ {0} |-> SegLen(pos, i, Par(P, i))]) + 20 THEN "resample-total-length-grew"
    ELSE IF w2 # "" THEN w2
    \* single branch
    ELSE IF o.blin.err # "" \/ ~PtsClose(o.blin.pts, LinearPoints(pos, rad, b1, c.n)) THEN "branch-linear-resample"
    ELSE IF o.biso.err # "" \/ ~PtsClose(o.biso.pts, IsoPoints(pos, rad, b1, c.sp, c.adjust)) THEN "branch-isometric-resample"
    \* smoothing: node count, connectivity, radii and the positions of root / furcations / tips (branch: its two ends) unchanged
    ELSE IF o.tsm.err # "" \/ o.tsm.pid # P \/ Len(o.tsm.pts) # Len(P) THEN "tree-smooth-structure"
    ELSE IF \E i \in Nodes(P) : o.tsm.pts[i + 1][4] # 10000 * rad[i + 1] THEN "tree-smooth-radii"
    ELSE IF \E i \in Critical(P) : \E k \in 1 .. 3 : AbsI(o.tsm.pts[i + 1][k] - 10000 * pos[i + 1][k]) > 4 THEN "tree-smooth-moved-a-critical-node"
    ELSE IF o.bsm.err # "" \/ Len(o.bsm.pts) # Len(b1) THEN "branch-smooth-count"
    ELSE IF \E k \in 1 .. Len(b1) : o.bsm.pts[k][4] # 10000 * rad[b1[k] + 1] THEN "branch-smooth-radii"
    ELSE IF \E e \in {1, Len(b1)} : \E k \in 1 .. 3 : AbsI(o.bsm.pts[e][k] - 10000 * pos[b1[e] + 1][k]) > 4 THEN "branch-smooth-moved-an-end-point"
    ELSE ""
VARIABLES l, bad
Init == l = 0 /\ bad = <<>>
Next == /\ l < Len(Obs)
        /\ l' = l + 1
        /\ LET o == Obs[l + 1]
               w == Why(Cases[o.cid], o) IN
           bad' = IF w = "" THEN bad ELSE Append(bad, <<o.cid, w>>)
Verdict == l = Len(Obs) => PrintT(<<"VERDICT", l, bad>>)
=============================================================================
