CONSTANTS MaxN = 4 NV = 5 BinN = TRUE
INIT Init
NEXT Next
INVARIANT Emitted
