-------------------------------- MODULE Asc --------------------------------
(***************************************************************************)
(* C15 — Neurolucida ASC documents.                                        *)
(*                                                                         *)
(* Producer: a single-tree document is produced token by token by a        *)
(* grammar-driven state machine (one action per grammar production), while *)
(* a reference interpreter — a stack of split parents and the last point   *)
(* of the current branch, nothing else — maintains the table the document  *)
(* denotes: one row per point in document order; the parent of a point is  *)
(* the preceding point of its branch, or the last point before the         *)
(* enclosing split for the first point of each alternative.                *)
(*                                                                         *)
(* Consumer (algorithm layer): the recursive-descent parser of             *)
(* swcgeom.transforms.neurolucida_asc transcribed as it is written         *)
(* (_parse, _parse_tree, _parse_subtree with its flag / current / root,    *)
(* _parse_node, _parse_color, _parse_comment, then the pre-order walk).    *)
(*                                                                         *)
(* Tokens: <<"(">>, <<")">>, <<"|">>, <<"F", v>>, <<"L", word>>,           *)
(* <<";", text>>, and <<"X", word>> for a word the lexer cannot convert    *)
(* (e.g. 1abc).                                                            *)
(***************************************************************************)
EXTENDS Integers, Sequences, FiniteSets, TLC

LP == <<"(">>
RP == <<")">>
OR == <<"|">>
F(v) == <<"F", v>>
L(w) == <<"L", w>>
Cm(t) == <<";", t>>
IsT(tok, k) == tok[1] = k
\* the four numbers of point number n (0-based): x identifies the point
PointToks(n) == <<LP, F(n + 1), F(((n * 3) % 5) - 2), F((n * 7) % 4), F(1 + (n % 3)), RP>>
ColourToks(c) == <<LP, L("Color"), L(c), RP>>
TypeOf(label) == IF label = "AXON" THEN 2 ELSE 3

\* ======================= consumer: the parser as the code has it =======================
\* parse state threaded through: pos (index of next_token), nodes (parent AST node of every NODE created so far; -1 = the TREE node)
Tok(T, p) == IF p <= Len(T) THEN T[p] ELSE <<"EOF">>
Fail == [err |-> TRUE, pos |-> 0, nodes |-> <<>>]
UpperIsColour(w) == w \in {"Color", "COLOR", "color"}
UpperIsTree(w)   == w \in {"Axon", "AXON", "axon", "Dendrite", "DENDRITE", "dendrite"}
UpperOf(w) == IF w \in {"Axon", "AXON", "axon"} THEN "AXON" ELSE "DENDRITE"

RECURSIVE SubLoop(_, _, _, _, _, _, _)
\* _parse_subtree(root) from the point where next_token = T[pos]; current, flag as in the code.
\* mode = "asis"    : the parser as it is
\*        "noclose" : named deviation - the ")" of a nested split is left for the caller (the parser before b65c71c)
\*        "nolead"  : named deviation - "( |" (a split whose first alternative is empty) is not recognised as a split
SubLoop(T, pos, root, current, flag, nodes, mode) ==
    LET tok == Tok(T, pos)
        \* enter a nested split whose "(" has been consumed; from = where the nested loop starts reading
        Nested(from) == LET r == SubLoop(T, from, current, current, TRUE, nodes, mode) IN
                        IF r.err THEN Fail
                        ELSE IF mode = "noclose" THEN SubLoop(T, r.pos, root, current, flag, r.nodes, mode)
                        ELSE IF IsT(Tok(T, r.pos), ")") THEN SubLoop(T, r.pos + 1, root, current, IF mode = "nolead" THEN flag ELSE TRUE, r.nodes, mode)
                        ELSE Fail IN
    IF IsT(tok, "EOF") THEN [err |-> FALSE, pos |-> pos, nodes |-> nodes]                  \* while next_token is not None: ends quietly
    ELSE IF IsT(tok, "(") THEN
        IF flag THEN SubLoop(T, pos + 1, root, current, FALSE, nodes, mode) ELSE Nested(pos + 1)
    ELSE IF IsT(tok, ")") THEN [err |-> FALSE, pos |-> pos, nodes |-> nodes]
    ELSE IF IsT(tok, "F") THEN                                                             \* _parse_node: FLOAT FLOAT FLOAT FLOAT )
        IF IsT(Tok(T, pos + 1), "F") /\ IsT(Tok(T, pos + 2), "F") /\ IsT(Tok(T, pos + 3), "F") /\ IsT(Tok(T, pos + 4), ")")
        THEN SubLoop(T, pos + 5, root, Len(nodes), TRUE, Append(nodes, current), mode)
        ELSE Fail
    ELSE IF IsT(tok, "L") THEN
        IF UpperIsColour(tok[2]) /\ IsT(Tok(T, pos + 1), "L") /\ IsT(Tok(T, pos + 2), ")")     \* _parse_color: COLOR value )
        THEN SubLoop(T, pos + 3, root, current, TRUE, nodes, mode)
        ELSE Fail
    ELSE IF IsT(tok, "|") THEN
        IF ~flag /\ mode # "nolead" /\ mode # "noclose" THEN Nested(pos)                    \* "( |": the bracket just consumed opened a split whose first alternative is empty
        ELSE SubLoop(T, pos + 1, root, root, TRUE, nodes, mode)
    ELSE IF IsT(tok, ";") THEN SubLoop(T, pos + 1, root, current, flag, nodes, mode)
    ELSE Fail                                                                              \* "X": the lexer raises

RECURSIVE TopLoop(_, _, _, _, _)
TopLoop(T, pos, nodes, label, mode) ==
    LET tok == Tok(T, pos) IN
    IF IsT(tok, "EOF") THEN Fail                                                           \* the closing bracket is asserted after the loop
    ELSE IF IsT(tok, ")") THEN [err |-> FALSE, pos |-> pos + 1, nodes |-> nodes, label |-> label]
    ELSE IF ~IsT(tok, "(") THEN Fail
    ELSE LET t2 == Tok(T, pos + 1) IN
         IF ~IsT(t2, "L") THEN Fail
         ELSE IF UpperIsTree(t2[2]) THEN                                                   \* _parse_tree: LITERAL ) ( subtree
              IF IsT(Tok(T, pos + 2), ")") /\ IsT(Tok(T, pos + 3), "(")
              THEN LET r == SubLoop(T, pos + 4, -1, -1, TRUE, nodes, mode) IN
                   IF r.err THEN Fail ELSE TopLoop(T, r.pos, r.nodes, UpperOf(t2[2]), mode)
              ELSE Fail
         ELSE IF UpperIsColour(t2[2]) THEN
              IF IsT(Tok(T, pos + 2), "L") /\ IsT(Tok(T, pos + 3), ")") THEN TopLoop(T, pos + 4, nodes, label, mode) ELSE Fail
         ELSE Fail
\* result of converting token stream T: err, or the parent of every point (ids in creation = pre-order) and the tree label
\* after the document's closing bracket only comments may follow (mode "trailing": named deviation - whatever follows is ignored, the parser before its repair)
OnlyComments(T, pos) == \A k \in pos .. Len(T) : IsT(T[k], ";")
ParseWith(T, mode) == IF ~IsT(Tok(T, 1), "(") THEN Fail @@ [label |-> ""]
                      ELSE LET r == TopLoop(T, 2, <<>>, "", mode) IN
                           IF r.err THEN Fail @@ [label |-> ""]
                           ELSE IF mode \in {"asis", "nolead"} /\ ~OnlyComments(T, r.pos) THEN Fail @@ [label |-> ""]        \* (the historical deviations predate this check)
                           ELSE r
Parse(T) == ParseWith(T, "asis")

\* ======================= the table a complete document denotes (reference interpreter as a function of the token stream) =======================
\* no flag, no recursion into the grammar: a bracket followed by a number is a point, by a word a marker or the label, anything else opens a split
RECURSIVE Ref(_, _, _, _, _)
Ref(T, pos, stk, lastp, rows) ==
    IF pos > Len(T) THEN rows
    ELSE LET tok == T[pos] IN
         IF IsT(tok, "(") THEN
              IF IsT(Tok(T, pos + 1), "F") THEN Ref(T, pos + 6, stk, Len(rows), Append(rows, lastp))
              ELSE IF IsT(Tok(T, pos + 1), "L") THEN Ref(T, IF IsT(Tok(T, pos + 2), "L") THEN pos + 4 ELSE pos + 3, stk, lastp, rows)
              ELSE Ref(T, pos + 1, Append(stk, lastp), lastp, rows)
         ELSE IF IsT(tok, "|") THEN Ref(T, pos + 1, stk, stk[Len(stk)], rows)
         ELSE IF IsT(tok, ")") THEN (IF stk = <<>> THEN rows ELSE Ref(T, pos + 1, SubSeq(stk, 1, Len(stk) - 1), lastp, rows))
         ELSE Ref(T, pos + 1, stk, lastp, rows)
RefTable(T) == Ref(T, 2, <<>>, -1, <<>>)
RefLabel(T) == LET ls == { p \in 1 .. Len(T) : IsT(T[p], "L") /\ UpperIsTree(T[p][2]) } IN UpperOf(T[CHOOSE p \in ls : \A q \in ls : p <= q][2])
PointVals(n) == <<n + 1, ((n * 3) % 5) - 2, (n * 7) % 4, 1 + (n % 3)>>
\* expected tables of the scaled documents built by the executor: a chain of n points; d nested two-way splits  P0 ( P1 ( .. Pd | Qd ) .. | Q1 )
ChainExp(n) == [j \in 1 .. n |-> j - 2]
CombExp(d)  == [j \in 1 .. 2 * d + 1 |-> IF j <= d + 1 THEN j - 2 ELSE 2 * d + 1 - j]

\* ======================= corruption and truncation of a finished stream =======================
\* positions (token indices) of the first float of every point
PointStarts(T) == { p \in 1 .. Len(T) - 4 : IsT(T[p], "F") /\ (p = 1 \/ ~IsT(T[p - 1], "F")) /\ IsT(T[p + 1], "F") }
Splice(T, a, b, mid) == SubSeq(T, 1, a - 1) \o mid \o SubSeq(T, b + 1, Len(T))
Corrupt(T, p, kind) ==
    CASE kind = "dropped-float"     -> Splice(T, p + 3, p + 3, <<>>)
      [] kind = "extra-float"       -> Splice(T, p + 4, p + 3, <<F(9)>>)
      [] kind = "literal-for-float" -> Splice(T, p + 1, p + 1, <<L("abc")>>)
      [] kind = "glued-word"        -> Splice(T, p + 2, p + 2, <<<<"X", "1abc">>>>)
      [] kind = "missing-close"     -> Splice(T, p + 4, p + 4, <<>>)
      [] kind = "extra-close"       -> Splice(T, p + 5, p + 4, <<RP>>)                     \* the point's closing bracket twice
CorruptKinds == {"dropped-float", "extra-float", "literal-for-float", "glued-word", "missing-close", "extra-close"}

\* ======================= coincident points =======================
\* the same document with the values of its k-th point (k = 0, 1, ..) replaced by those of point k % m: for m = 1 every point of the
\* document is the same point, for m = 2 there are two alternating ones.  The structure (who is whose parent) cannot depend on the values.
DupStream(T, m) == LET PS == PointStarts(T) IN
                   [p \in 1 .. Len(T) |->
                      IF IsT(T[p], "F") /\ \E q \in PS : q <= p /\ p <= q + 3
                      THEN LET st == CHOOSE q \in PS : q <= p /\ p <= q + 3
                               idx == Cardinality({ q \in PS : q < st }) IN
                           F(PointVals(idx % m)[p - st + 1])
                      ELSE T[p]]
=============================================================================
