--------------------------- MODULE Trace_TreeOps ---------------------------
(***************************************************************************)
(* Trace validation for C03.  The executor drives the real library along a *)
(* generated pipeline and logs, after every step, the projected heap:      *)
(*   <<"apply", op, arg, srcs, rtop, idsok, digs, rcells>>                 *)
(*        op created a new object from objects srcs; rtop = its parent ids,*)
(*        digs = content digest of EVERY live object after the step,       *)
(*        rcells = storage classes (np.shares_memory) of the new object's  *)
(*        buffers                                                          *)
(*   <<"write", o, digs>>   an attribute was assigned through a node handle*)
(*        of object o                                                      *)
(* TLC replays the log through TreeOps: every step must satisfy the        *)
(* structural contract, Pure, NoSharing and Isolation on the observed heap.*)
(***************************************************************************)
EXTENDS TreeOps, Json, IOUtils
Cases == ndJsonDeserialize(IOEnv.CASES)
Obs   == ndJsonDeserialize(IOEnv.OBS)
VARIABLES ci, k, digs, cells, usable, bad
vars == <<ci, k, digs, cells, usable, bad>>
Init == ci = 1 /\ k = 0 /\ digs = <<>> /\ cells = <<>> /\ usable = <<>> /\ bad = <<>>
NextCase == ci' = ci + 1 /\ k' = 0 /\ digs' = <<>> /\ cells' = <<>> /\ usable' = <<>>
Fail(o, w) == bad' = Append(bad, <<o.cid, w>>) /\ NextCase
SetOf(s) == { s[j] : j \in DOMAIN s }

ApplyWhy(e) ==
    LET op == e[2]  arg == e[3]  srcs == e[4]  rtop == e[5]  nd == e[7]  rc == SetOf(e[8])
        r == Len(digs) + 1 IN
    IF \E s \in SetOf(srcs) : s \notin DOMAIN usable \/ ~usable[s] THEN "source-not-admissible"
    ELSE IF Len(nd) # r THEN "heap-size"
    ELSE LET w1 == ResultWhy(op, arg, rtop) IN
         IF w1 # "" THEN w1
         ELSE IF e[6] # 1 THEN "ids-not-positions"
         ELSE LET w2 == PureWhy(digs, SubSeq(nd, 1, Len(digs))) IN
              IF w2 # "" THEN w2
              ELSE NoSharingWhy(Append(cells, rc), r)

Step == /\ ci <= Len(Obs)
        /\ LET o == Obs[ci] IN
           IF k = 0 /\ Len(digs) = 0 THEN        \* first line of a case: the start tree
               /\ digs' = <<o.dig0>> /\ cells' = <<SetOf(o.cells0)>> /\ usable' = <<TRUE>>
               /\ k' = 0 /\ ci' = ci /\ bad' = bad
           ELSE IF k < Len(o.steps) THEN
               LET e == o.steps[k + 1] IN
               IF e[1] = "error" THEN Fail(o, "raised-" \o e[2] \o "-in-" \o e[3])
               ELSE IF e[1] = "apply" THEN
                    LET w == ApplyWhy(e) IN
                    IF w # "" THEN Fail(o, e[2] \o ":" \o w)
                    ELSE /\ digs' = e[7] /\ cells' = Append(cells, SetOf(e[8])) /\ usable' = Append(usable, UsableAfter(e[2], e[3]))
                         /\ k' = k + 1 /\ ci' = ci /\ bad' = bad
               ELSE \* write
                    LET w == IsolationWhy(digs, e[3], e[2]) IN
                    IF w # "" THEN Fail(o, "write:" \o w)
                    ELSE /\ digs' = e[3] /\ k' = k + 1 /\ ci' = ci /\ bad' = bad /\ UNCHANGED <<cells, usable>>
           ELSE bad' = bad /\ NextCase
Next == Step
Verdict == ci = Len(Obs) + 1 => PrintT(<<"VERDICT", Len(Obs), bad>>)
=============================================================================
