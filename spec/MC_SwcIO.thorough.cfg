CONSTANT MaxLen = 4
SPECIFICATION Spec
INVARIANT NoSilentTruncation
INVARIANT Loud
INVARIANT MachineIsFunction
PROPERTY Terminates
