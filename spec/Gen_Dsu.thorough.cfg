CONSTANTS N = 4 L = 4 LU = 5
INIT Init
NEXT Next
INVARIANT Emitted
