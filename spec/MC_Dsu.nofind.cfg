CONSTANT N = 4
CONSTANT UseNoFind = TRUE
CONSTANT TrackUnions = TRUE
SPECIFICATION Spec
INVARIANT SameOK
