CONSTANTS MaxObjs = 3 AllowAlias = FALSE AllowInPlace = FALSE
SPECIFICATION Spec
INVARIANT AllWF
INVARIANT NoSharing
PROPERTY Pure
PROPERTY Isolation
