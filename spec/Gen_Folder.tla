----------------------------- MODULE Gen_Folder -----------------------------
(* X02: folders of up to MaxN images of V voxels over Vals, with the exact statistics; Welford's update reaches them (ASSUME) *)
EXTENDS Folder, SequencesExt, Json, IOUtils
CONSTANTS MaxN, V, Vals
Imgs == [1 .. V -> Vals]
Folders == UNION { [1 .. n -> Imgs] : n \in 1 .. MaxN }
RECURSIVE Run(_, _, _)
Run(s, imgs, k) == IF k > Len(imgs) THEN s ELSE Run(WStep(s, imgs[k]), imgs, k + 1)
\* streaming the files through Welford's update ends in the definitions' mean and squared deviations
ASSUME \A f \in Folders : WInv(Run(WInit(V), f, 1), f)
AllSeq == SetToSeq(Folders)
Numbered == [j \in 1 .. Len(AllSeq) |-> [cid |-> j, imgs |-> AllSeq[j], mean |-> StatMean(AllSeq[j]), var |-> StatVar(AllSeq[j]),
                                         mn |-> StatMin(AllSeq[j]), mx |-> StatMax(AllSeq[j])]]
VARIABLE done
Init == done = ndJsonSerialize(IOEnv.OUT, Numbered)
Next == FALSE /\ UNCHANGED done
Emitted == done => PrintT(<<"CASES", Len(AllSeq)>>)
=============================================================================
