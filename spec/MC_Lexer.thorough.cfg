CONSTANTS Alphabet = {"(", ")", "|", ";", " ", "\n", "1", ".", "-", "e", "a"} MaxLen = 5
SPECIFICATION Spec
INVARIANT MachineIsFunction
INVARIANT NoInvention
PROPERTY Terminates
