CONSTANTS Alphabet <- SmallAlphabet MaxLen = 5
SPECIFICATION Spec
INVARIANT MachineIsFunction
INVARIANT NoInvention
PROPERTY Terminates
