---------------------------- MODULE Gen_Checkers ----------------------------
(* cases for C18: every parent table up to MaxN rows for the four checkers; every multi-root forest up to FMaxN rows *)
(* with every arrangement of the rows on a line, for each root-repair mode; plus the specification-level statement  *)
(* that the 'nearest' algorithm (tree labels merged after every link) repairs every forest and that the named       *)
(* deviation (labels not merged) does not.                                                                        *)
EXTENDS Checkers, SequencesExt, Json, IOUtils
CONSTANTS MaxN, FMaxN, RingN
Tables == UNION { AllTables(n) : n \in 1 .. MaxN }
AcyclicF(Q) == \A a \in Nodes(Q) : \E r \in Roots(Q) : r \in Anc(Q, a)
Forests == UNION { { Q \in AllTables(n) : AcyclicF(Q) /\ Cardinality(Roots(Q)) >= 2 } : n \in 2 .. FMaxN }
Perms(n) == { p \in [1 .. n -> 0 .. n - 1] : \A a, b \in 1 .. n : p[a] = p[b] => a = b }
DOf(pos) == [a \in 1 .. Len(pos) |-> [b \in 1 .. Len(pos) |-> (pos[a] - pos[b]) * (pos[a] - pos[b])]]
\* all arrangements up to 4 rows; for 5 rows the rotations of the line and of its mirror image
Arr(n) == IF n <= 4 THEN Perms(n) ELSE { [k \in 1 .. n |-> (k - 1 + s) % n] : s \in 0 .. n - 1 } \cup { [k \in 1 .. n |-> (2 * n - k + s) % n] : s \in 0 .. n - 1 }
Placed == UNION { { [P |-> F, pos |-> p] : p \in Arr(Len(F)) } : F \in Forests }
ASSUME \A c \in Placed : RepairWhy(c.P, NearestOf(c.P, DOf(c.pos))) = "" /\ RepairWhy(c.P, SomasOf(c.P)) = ""
ASSUME \E c \in Placed : RepairWhy(c.P, NearestNoMerge(c.P, TopOf(c.P), DOf(c.pos), SecondaryRoots(c.P))) # ""
Modes == {"off", "somas", "nearest"}
\* long cycles in every row order: the ring 0 -> c[1] -> ... -> c[n-1] -> 0 for every arrangement c of the other rows, and the same ring with one more row hanging from it
RingOf(c) == LET n == Len(c) + 1  cyc == <<0>> \o c IN [k \in 1 .. n |-> LET at == CHOOSE q \in 1 .. n : cyc[q] = k - 1 IN cyc[(at % n) + 1]]
Arrs(n) == { c \in [1 .. n - 1 -> 1 .. n - 1] : \A a, b \in 1 .. n - 1 : c[a] = c[b] => a = b }
Rings == UNION { { RingOf(c) : c \in Arrs(n) } : n \in RingN }
Lassos == UNION { { Append(RingOf(c), h) : c \in Arrs(n), h \in {0, n - 1} } : n \in RingN }
CheckSeq  == SetToSeq({ [op |-> "check", P |-> P] : P \in Tables \cup Rings \cup Lassos })
RepairSeq == SetToSeq({ [op |-> "repair", mode |-> m] @@ c : c \in Placed, m \in Modes })
AllSeq == CheckSeq \o RepairSeq
Bases == <<0, 1, 7, 100>>
Numbered == [j \in 1 .. Len(AllSeq) |-> [cid |-> j, base |-> Bases[(j % 4) + 1], via |-> j % 3] @@ AllSeq[j]]
VARIABLE done
Init == done = ndJsonSerialize(IOEnv.OUT, Numbered)
Next == FALSE /\ UNCHANGED done
Emitted == done => PrintT(<<"CASES", Len(CheckSeq), Len(RepairSeq)>>)
=============================================================================
