CONSTANT Big = TRUE
INIT Init
NEXT Next
INVARIANT Emitted
