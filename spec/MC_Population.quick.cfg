CONSTANTS MaxSteps = 4 MaxObjs = 6 Emit = FALSE Wide = TRUE Only = {}
INIT Init
NEXT Next
INVARIANT IndexRight
INVARIANT LazyInv
PROPERTY OnlyOnDemandStep
