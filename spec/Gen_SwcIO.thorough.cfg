CONSTANT MaxN = 3
CONSTANT Bad2N = 1
CONSTANT IdSeqs <- IdSeqsThorough
CONSTANT RTMaxN = 5
CONSTANT RTComMax = 3
INIT Init
NEXT Next
INVARIANT Emitted
