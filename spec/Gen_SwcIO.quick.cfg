CONSTANT MaxN = 3
CONSTANT Bad2N = 0
CONSTANT IdSeqs <- IdSeqsQuick
CONSTANT RTMaxN = 4
CONSTANT RTComMax = 2
INIT Init
NEXT Next
INVARIANT Emitted
