----------------------------- MODULE ImageStack -----------------------------
(***************************************************************************)
(* C20 — image stacks on disk and rasterised trees.                        *)
(*                                                                         *)
(* Part A (axis and dtype bookkeeping).  A stack is a function on index    *)
(* tuples <<x, y, z, c>> of shape <<X, Y, Z, C>>; the value at an index is *)
(* its code.  Saving as TIFF moves axis Z first and tags the axes "ZXYC";  *)
(* loading permutes the file's axes back by the tag.  Unsigned integer and *)
(* floating point values are related by v / MAX (to float) and             *)
(* floor(v * MAX) (to unsigned).                                           *)
(*                                                                         *)
(* Part B (rasterisation).  A scene is a lattice tree (integer positions   *)
(* and radii).  The stack covers the box floor(min(p - r)) .. ceil(max(p + *)
(* r)); along each axis the voxel centres are lo + (k + 1/2) res for every *)
(* k with centre < hi; the result has shape <<Z, X, Y>>, and a voxel is    *)
(* lit iff its centre lies in the convex hull of the two end balls of some *)
(* parent-child pair.  Coordinates are carried as integers in units of 1/S.*)
(***************************************************************************)
EXTENDS Integers, Sequences, FiniteSets, TLC

\* ---- Part A ----
Code(idx, shape) == ((idx[1] * shape[2] + idx[2]) * shape[3] + idx[3]) * shape[4] + idx[4]            \* injective on the index set
Indices(shape) == (0 .. shape[1] - 1) \X (0 .. shape[2] - 1) \X (0 .. shape[3] - 1) \X (0 .. shape[4] - 1)
Orig(shape) == [idx \in Indices(shape) |-> Code(idx, shape)]
\* file layout after save: axes Z X Y C
FileShape(shape) == <<shape[3], shape[1], shape[2], shape[4]>>
Saved(a, shape) == [f \in Indices(FileShape(shape)) |-> a[<<f[2], f[3], f[1], f[4]>>]]
\* loading by the axes tag: tag[k] names the k-th file axis; AxesOrder gives its position in (X, Y, Z, C)
AxesOrder(ch) == CASE ch = "X" -> 1 [] ch = "Y" -> 2 [] ch = "Z" -> 3 [] ch = "C" -> 4
Loaded(f, fshape, tag) == LET where(axis) == CHOOSE k \in 1 .. 4 : AxesOrder(tag[k]) = axis
                              shape == [axis \in 1 .. 4 |-> fshape[where(axis)]] IN
                          [idx \in Indices(shape) |-> f[[k \in 1 .. 4 |-> idx[AxesOrder(tag[k])]]]]
RoundTripOK(shape) == Loaded(Saved(Orig(shape), shape), FileShape(shape), <<"Z", "X", "Y", "C">>) = Orig(shape)
\* a wrong tag (the named deviation "ZYXC") must not round-trip on an asymmetric shape
RoundTripWrongTag(shape) == Loaded(Saved(Orig(shape), shape), FileShape(shape), <<"Z", "Y", "X", "C">>) = Orig(shape)

\* ---- Part B ----
Sub3(a, b) == <<a[1] - b[1], a[2] - b[2], a[3] - b[3]>>
Dot3(a, b) == a[1] * b[1] + a[2] * b[2] + a[3] * b[3]
MinOfS(S) == CHOOSE m \in S : \A x \in S : m <= x
MaxOfS(S) == CHOOSE m \in S : \A x \in S : x <= m
Lo(pos, rad, ax) == MinOfS({ pos[i][ax] - rad[i] : i \in DOMAIN pos })
Hi(pos, rad, ax) == MaxOfS({ pos[i][ax] + rad[i] : i \in DOMAIN pos })
CeilDiv(n, d) == (n + d - 1) \div d
\* number of voxel centres lo + (k + 1/2) res < hi, with res = resS / S (resS even)
NVox(lo, hi, resS, S) == LET ext == (hi - lo) * S  h == resS \div 2 IN IF ext <= h THEN 0 ELSE CeilDiv(ext - h, resS)
Centre(lo, k, resS, S) == lo * S + (2 * k + 1) * (resS \div 2)                                           \* in units of 1/S
\* squared distance from p to the segment a-b as <<numerator, denominator>> in units of 1/S^2; p is in units of 1/S, a and b are lattice points
\* (the direction is kept unscaled so that the products stay within 32 bits)
SegDist2(p, a, b, S) == LET d == Sub3(b, a)  w == Sub3(p, <<a[1] * S, a[2] * S, a[3] * S>>)  dd == Dot3(d, d)  t == Dot3(w, d) IN
                        IF dd = 0 \/ t <= 0 THEN <<Dot3(w, w), 1>>
                        ELSE IF t >= dd * S THEN LET v == Sub3(p, <<b[1] * S, b[2] * S, b[3] * S>>) IN <<Dot3(v, v), 1>>
                        ELSE <<Dot3(w, w) * dd - t * t, dd>>
\* strictly inside / inside-or-on the capsule of radius r (lattice units) around the segment
Within(p, a, b, r, S, strict) == LET q == SegDist2(p, a, b, S) IN IF strict THEN q[1] < r * r * S * S * q[2] ELSE q[1] <= r * r * S * S * q[2]
Scale3(v, S) == <<v[1] * S, v[2] * S, v[3] * S>>
\* must be lit: strictly inside the capsule of the smaller end radius of some edge; must be dark: outside the capsule of the larger end radius of every edge
\* (for equal end radii the round cone IS the capsule, so only centres exactly on a surface are left undecided)
\* a round cone contains the balls at both of its ends (whatever their sizes: one may lie inside the other)
InEndBall(p, P, pos, rad, S) == \E i \in 1 .. Len(P) : /\ (P[i] # -1 \/ \E k \in 2 .. Len(P) : P[k] + 1 = i)
                                                         /\ LET v == Sub3(p, Scale3(pos[i], S)) IN Dot3(v, v) < rad[i] * rad[i] * S * S
MustLit(p, P, pos, rad, S)  == \/ \E i \in 2 .. Len(P) : LET j == P[i] + 1  r == IF rad[i] < rad[j] THEN rad[i] ELSE rad[j] IN Within(p, pos[j], pos[i], r, S, TRUE)
                               \/ InEndBall(p, P, pos, rad, S)
MustDark(p, P, pos, rad, S) == \A i \in 2 .. Len(P) : LET j == P[i] + 1  r == IF rad[i] > rad[j] THEN rad[i] ELSE rad[j] IN ~Within(p, pos[j], pos[i], r, S, FALSE)
=============================================================================
