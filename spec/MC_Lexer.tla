------------------------------ MODULE MC_Lexer ------------------------------
(* the tokeniser as a state machine (the code's loop: skip blanks, read a word or one delimiter, a comment runs to the end of its line), *)
(* explored on every string over Alphabet up to MaxLen: when it stops it has produced exactly Lex(input)                               *)
EXTENDS Lexer
CONSTANTS Alphabet, MaxLen
VARIABLES input, pos, toks, st
vars == <<input, pos, toks, st>>
Strings == UNION { [1 .. n -> Alphabet] : n \in 0 .. MaxLen }
Init == input \in Strings /\ pos = 1 /\ toks = <<>> /\ st = "run"
AtEnd == pos > Len(input)
SkipBlank == st = "run" /\ ~AtEnd /\ input[pos] \in Blank /\ pos' = pos + 1 /\ UNCHANGED <<input, toks, st>>
ReadSingle == st = "run" /\ ~AtEnd /\ input[pos] \in Single /\ toks' = Append(toks, <<input[pos]>>) /\ pos' = pos + 1 /\ UNCHANGED <<input, st>>
ReadComment == st = "run" /\ ~AtEnd /\ input[pos] = ";"
               /\ LET e == LineEnd(input, pos + 1) IN toks' = Append(toks, <<";", SubSeq(input, pos + 1, e)>>) /\ pos' = e + 2
               /\ UNCHANGED <<input, st>>
ReadWord == st = "run" /\ ~AtEnd /\ input[pos] \notin Delim
            /\ LET e == WordEnd(input, pos)  t == WordToken(SubSeq(input, pos, e)) IN
               (IF t[1] = "ERROR" THEN st' = "error" /\ UNCHANGED <<toks, pos>> ELSE toks' = Append(toks, t) /\ pos' = e + 1 /\ st' = st)
            /\ UNCHANGED input
Stop == st = "run" /\ AtEnd /\ st' = "done" /\ UNCHANGED <<input, pos, toks>>
Next == SkipBlank \/ ReadSingle \/ ReadComment \/ ReadWord \/ Stop
MachineIsFunction == /\ st = "done" => Lex(input) = <<toks, TRUE>>
                     /\ st = "error" => Lex(input) = <<toks, FALSE>>
\* every token boundary is a delimiter boundary: re-joining the tokens' texts never needs a character the input did not have
NoInvention == \A k \in DOMAIN toks : toks[k][1] \in {"F", "L"} => \A j \in DOMAIN toks[k][2] : toks[k][2][j] \notin Delim
Terminates == <>(st \in {"done", "error"})
Spec == Init /\ [][Next]_vars /\ WF_vars(Next)
=============================================================================
