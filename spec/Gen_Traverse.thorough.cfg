CONSTANTS MaxN = 6 MaxNHist = 5
INIT Init
NEXT Next
INVARIANT Emitted
