CONSTANT MaxN = 6
INIT Init
NEXT Next
INVARIANT Emitted
