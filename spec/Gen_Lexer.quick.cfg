CONSTANTS Alphabet = {"(", ")", "|", ";", " ", "\n", "1", ".", "-", "e", "a"} MaxLen = 4
INIT Init
NEXT Next
INVARIANT Emitted
