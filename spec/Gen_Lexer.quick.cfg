CONSTANTS Alphabet <- SmallAlphabet MaxLen = 4
INIT Init
NEXT Next
INVARIANT Emitted
