CONSTANT MaxDim = 3
INIT Init
NEXT Next
INVARIANT Emitted
