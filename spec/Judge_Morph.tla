----------------------------- MODULE Judge_Morph -----------------------------
(***************************************************************************)
(* Judge for C10 and C11.  The case is an abstract lattice tree (c.P,       *)
(* c.pos); the observation is what the real library reports for its        *)
(* concretisation — for C11 after a rigid motion, a renumbering or a       *)
(* uniform scaling, with every node-keyed value mapped back to the         *)
(* original node and every length divided by the scale factor — in units   *)
(* of 10^-3.  Since Morph.tla is pose- and numbering-free, the same        *)
(* clauses decide both properties.                                         *)
(***************************************************************************)
EXTENDS Morph, Json, IOUtils
Cases == ndJsonDeserialize(IOEnv.CASES)
Obs   == ndJsonDeserialize(IOEnv.OBS)
SetOfSeq(s) == { s[k] : k \in DOMAIN s }
Entry(s, key) == CHOOSE e \in SetOfSeq(s) : e[1] = key
HasAll(s, keys) == Len(s) = Cardinality(keys) /\ { s[k][1] : k \in DOMAIN s } = keys
NA == 9999
\* with exact lattice coordinates (o.exact = 1) an end point exactly on the sphere is decided by the rule  min <= rho < max;
\* after a generic motion or scaling the floats decide it, so only the bounds without / with such end points are required
ShollOK(o, v, P, pos, r) == IF o.exact = 1 THEN v = ShollCount(P, pos, r[1], r[2]) ELSE ShollLo(P, pos, r[1], r[2]) <= v /\ v <= ShollHi(P, pos, r[1], r[2])
Flip(a) == <<-a[1], a[2], a[3]>>
AngOK(obs, a) == IF a[2] = 0 \/ a[3] = 0 THEN TRUE ELSE obs # NA /\ CloseCos(obs, a)          \* zero vectors: the angle is undefined, nothing is claimed
\* the long-stem stage: the tree behind a stem of 2 * 10^5 lattice units; node ids of the observation are those of StemP(c.P)
WhyStem(c, o) ==
    LET P == StemP(c.P)  pos == StemPos(c.P, c.pos)  B == BranchSet(P)  N == Nodes(P) IN
    IF o.err # "" THEN "raised-" \o o.err
    ELSE IF ~LatticeOK(P, pos) THEN "MACHINERY-not-a-lattice-tree"
    ELSE IF ~CloseL(o.length, TreeLength(P, pos)) THEN "tree-length"
    ELSE IF ~CloseL(o.length_fe, TreeLength(P, pos)) THEN "extractor-length"
    ELSE IF ~CloseL(o.branch_len_sum, TreeLength(P, pos)) THEN "length-is-not-the-sum-of-branch-lengths"
    ELSE IF ~HasAll(o.branches, { b[Len(b)] : b \in B }) THEN "branch-set"
    ELSE IF \E b \in B : LET e == Entry(o.branches, b[Len(b)]) IN e[2] # b[1] \/ ~CloseL(e[3], SeqLength(P, pos, b)) THEN "branch-length"
    ELSE IF ~HasAll(o.paths, Tips(P)) THEN "path-set"
    ELSE IF \E t \in Tips(P) : ~CloseL(Entry(o.paths, t)[2], PathDistance(P, pos, t)) THEN "path-length"
    ELSE IF \E i \in N : ~CloseL(o.lm_node[i + 1][1], PathDistance(P, pos, i)) THEN "lmeasure-path-distance"
    ELSE IF \E b \in B : LET e == Entry(o.lm_branch, b[Len(b)]) IN ~CloseL(e[2], SeqLength(P, pos, b)) \/ e[4] # Len(b) - 1 THEN "lmeasure-branch-pathlength-or-fragmentation"
    ELSE ""
Why(c, o) ==
    LET P == c.P  pos == c.pos  B == BranchSet(P)  N == Nodes(P) IN
    IF c.kind = "stem" THEN WhyStem(c, o)
    ELSE IF o.err # "" THEN "raised-" \o o.err
    ELSE IF ~LatticeOK(P, pos) THEN "MACHINERY-not-a-lattice-tree"
    \* counts
    ELSE IF o.cnt # <<Len(P), Cardinality(Tips(P)), Cardinality(Furcs(P)), Cardinality(B), Cardinality(Paths(P))>> THEN "feature-counts"
    ELSE IF o.lmcnt # <<Cardinality(Kids(P, 0)), Cardinality(Furcs(P)), Cardinality(B), Cardinality(Tips(P))>> THEN "lmeasure-counts"
    \* lengths
    ELSE IF ~CloseI(o.length, TreeLength(P, pos)) THEN "tree-length"
    ELSE IF ~CloseI(o.length_fe, TreeLength(P, pos)) THEN "extractor-length"
    ELSE IF ~CloseI(o.branch_len_sum, TreeLength(P, pos)) THEN "length-is-not-the-sum-of-branch-lengths"
    ELSE IF ~HasAll(o.branches, { b[Len(b)] : b \in B }) THEN "branch-set"
    ELSE IF \E b \in B : LET e == Entry(o.branches, b[Len(b)]) IN e[2] # b[1] \/ ~CloseI(e[3], SeqLength(P, pos, b)) THEN "branch-length"
    ELSE IF \E b \in B : ~CloseRatio(Entry(o.branches, b[Len(b)])[4], StraightOver(P, pos, b)) THEN "branch-tortuosity"
    ELSE IF ~HasAll(o.paths, Tips(P)) THEN "path-set"
    ELSE IF \E t \in Tips(P) : ~CloseI(Entry(o.paths, t)[2], PathDistance(P, pos, t)) THEN "path-length"
    ELSE IF \E t \in Tips(P) : ~CloseRatio(Entry(o.paths, t)[3], StraightOver(P, pos, PathTo(P, t))) THEN "path-tortuosity"
    \* radial distance and branch order
    ELSE IF Len(o.radial) # Len(P) \/ \E i \in N : ~CloseRoot(o.radial[i + 1], D2(pos, 0, i)) THEN "radial-distance"
    ELSE IF ~HasAll(o.tip_radial, Tips(P)) \/ \E t \in Tips(P) : ~CloseRoot(Entry(o.tip_radial, t)[2], D2(pos, 0, t)) THEN "tip-radial-distance"
    ELSE IF ~HasAll(o.furc_radial, Furcs(P)) \/ \E t \in Furcs(P) : ~CloseRoot(Entry(o.furc_radial, t)[2], D2(pos, 0, t)) THEN "furcation-radial-distance"
    ELSE IF ~HasAll(o.bt_order, Critical(P)) \/ \E k \in Critical(P) : Entry(o.bt_order, k)[2] # BTDepth(P, k) THEN "node-branch-order"
    \* Sholl
    ELSE IF \E j \in DOMAIN c.radii : ~ShollOK(o, o.sholl_intersect[j], P, pos, c.radii[j]) THEN "sholl-intersect"
    ELSE IF \E j \in DOMAIN c.radii : ~ShollOK(o, o.sholl_get[j], P, pos, c.radii[j]) THEN "sholl-get"
    ELSE IF \E j \in DOMAIN c.radii : ~ShollOK(o, o.sholl_fe[j], P, pos, c.radii[j]) THEN "extractor-sholl"
    ELSE IF Len(o.sholl_steps) # c.steps THEN "sholl-number-of-radii"
    ELSE IF \E k \in 1 .. c.steps : LET num == k * k * MaxRadial2(P, pos)  den == (c.steps + 1) * (c.steps + 1) IN
              o.sholl_steps[k] < ShollLo(P, pos, num, den) \/ o.sholl_steps[k] > ShollHi(P, pos, num, den) THEN "sholl-step-grid"
    \* L-Measure per node / branch / bifurcation
    ELSE IF \E i \in N : LET e == o.lm_node[i + 1] IN ~CloseI(e[1], PathDistance(P, pos, i)) THEN "lmeasure-path-distance"
    ELSE IF \E i \in N : ~CloseRoot(o.lm_node[i + 1][2], D2(pos, 0, i)) THEN "lmeasure-euclidean-distance"
    ELSE IF \E i \in N : o.lm_node[i + 1][3] # LMOrder(P, i) THEN "lmeasure-branch-order"
    ELSE IF \E i \in N : o.lm_node[i + 1][4] # TermDegree(P, i) THEN "lmeasure-terminal-degree"
    ELSE IF \E b \in B : LET e == Entry(o.lm_branch, b[Len(b)]) IN ~CloseI(e[2], SeqLength(P, pos, b)) \/ e[4] # Len(b) - 1 THEN "lmeasure-branch-pathlength-or-fragmentation"
    ELSE IF \E b \in B : SeqLength(P, pos, b) > 0 /\ ~CloseRatio(Entry(o.lm_branch, b[Len(b)])[3], StraightOver(P, pos, b)) THEN "lmeasure-contraction"
    ELSE IF ~HasAll(o.lm_bif, Bifs(P)) THEN "bifurcation-set"
    ELSE IF \E b \in Bifs(P) : LET pa == PartAsym(P, b) IN Abs(Entry(o.lm_bif, b)[2] * pa[2] - 1000 * pa[1]) > pa[2] THEN "partition-asymmetry"
    ELSE IF \E b \in Bifs(P) : ~AngOK(Entry(o.lm_bif, b)[3], AmplLocal(P, pos, b)) THEN "bif-ampl-local"
    ELSE IF \E b \in Bifs(P) : ~AngOK(Entry(o.lm_bif, b)[4], AmplRemote(P, pos, b)) THEN "bif-ampl-remote"
    ELSE IF \E b \in Bifs(P) \ {0} : LET t == TiltLocal(P, pos, b) IN t[1][2] # 0 /\ t[1][3] # 0 /\ t[2][3] # 0 /\ ~AngOK(Entry(o.lm_bif, b)[5], BiggerCos(t[1], t[2])) THEN "bif-tilt-local"
    ELSE IF \E b \in Bifs(P) \ {0} : LET t == TiltRemote(P, pos, b) IN t[1][2] # 0 /\ t[1][3] # 0 /\ t[2][3] # 0 /\ ~AngOK(Entry(o.lm_bif, b)[6], BiggerCos(t[1], t[2])) THEN "bif-tilt-remote"
    ELSE IF \E b \in Bifs(P) \ {0} : PrevCritical(P, b) \in Bifs(P) /\ ~AngOK(Entry(o.lm_bif, b)[7], TorqueLocal(P, pos, b)) /\ ~(o.renumbered = 1 /\ AngOK(Entry(o.lm_bif, b)[7], Flip(TorqueLocal(P, pos, b)))) THEN "bif-torque-local"
    ELSE IF \E b \in Bifs(P) \ {0} : PrevCritical(P, b) \in Bifs(P) /\ ~AngOK(Entry(o.lm_bif, b)[8], TorqueRemote(P, pos, b)) /\ ~(o.renumbered = 1 /\ AngOK(Entry(o.lm_bif, b)[8], Flip(TorqueRemote(P, pos, b)))) THEN "bif-torque-remote"
    \* the normal of a bifurcation plane is oriented by the order of the two children in the table: after a renumbering the torque may come out as its supplement
    ELSE IF \E b \in Bifs(P) \ {0} : PrevCritical(P, b) \in Bifs(P) /\ (~AngOK(Entry(o.lm_bif, b)[7], TorqueLocal(P, pos, b)) \/ ~AngOK(Entry(o.lm_bif, b)[8], TorqueRemote(P, pos, b))) THEN "torque-orientation-follows-child-numbering"
    \* C11 only: volume scales with the cube of the factor and is otherwise unchanged
    ELSE IF \E j \in DOMAIN o.vol_ratio : Abs(o.vol_ratio[j] - 1000000) > 200 THEN "volume-not-invariant"
    ELSE ""
\* population front end: one row per tree, in order, each tree's values followed by zeros up to the longest row
\* (feature: path_length, whose order within a row the property does not fix: compared as bags; and node_count, one value per tree)
BagOfSeq(q) == [v \in SetOfSeq(q) |-> Cardinality({ k \in DOMAIN q : q[k] = v })]
RA == << <<1, 2>>, <<9, 2>> >>                     \* rho^2 = num / den: never a lattice distance, so no count depends on rounding
RB == << <<51, 2>>, <<1, 2>>, <<9, 2>> >>
WhyPop(c, o) ==
    LET ntips(k) == Cardinality(Tips(c.trees[k].P))
        width == LET S == { ntips(k) : k \in DOMAIN c.trees } IN CHOOSE m \in S : \A x \in S : x <= m
        expd(k) == LET ts == SeqOfSet(Tips(c.trees[k].P)) IN [j \in DOMAIN ts |-> PathDistance(c.trees[k].P, c.trees[k].pos, ts[j])]
        near(q) == (q + 500) \div 1000 IN
    IF o.err # "" THEN "raised-" \o o.err
    ELSE IF Len(o.rows) # Len(c.trees) \/ Len(o.counts) # Len(c.trees) THEN "population-one-row-per-tree"
    ELSE IF \E k \in DOMAIN c.trees : o.counts[k] # <<1000 * Len(c.trees[k].P)>> THEN "population-node-count-rows"
    ELSE IF \E k \in DOMAIN c.trees : Len(o.rows[k]) # width THEN "population-row-width"
    ELSE IF \E k \in DOMAIN c.trees : \E j \in ntips(k) + 1 .. width : o.rows[k][j] # 0 THEN "population-zero-padding"
    ELSE IF \E k \in DOMAIN c.trees : \E j \in 1 .. ntips(k) : ~CloseI(o.rows[k][j], near(o.rows[k][j])) THEN "population-values"
    ELSE IF \E k \in DOMAIN c.trees : BagOfSeq([j \in 1 .. ntips(k) |-> near(o.rows[k][j])]) # BagOfSeq(expd(k)) THEN "population-values"
    ELSE IF o.rows2 # o.rows THEN "population-values-asked-again"
    \* the same extractor object asked for Sholl counts at radii RA, then RB (another number of radii, another order), then RA again
    ELSE IF o.sholl = 1 /\ (\E k \in DOMAIN c.trees : o.shA[k] # [j \in DOMAIN RA |-> ShollCount(c.trees[k].P, c.trees[k].pos, RA[j][1], RA[j][2])]) THEN "population-sholl"
    ELSE IF o.sholl = 1 /\ (\E k \in DOMAIN c.trees : o.shB[k] # [j \in DOMAIN RB |-> ShollCount(c.trees[k].P, c.trees[k].pos, RB[j][1], RB[j][2])]) THEN "population-sholl-second-radii"
    ELSE IF o.sholl = 1 /\ o.shA2 # o.shA THEN "population-sholl-first-radii-again"
    ELSE ""
VARIABLES l, bad
Init == l = 0 /\ bad = <<>>
Next == /\ l < Len(Obs)
        /\ l' = l + 1
        /\ LET o == Obs[l + 1]
               c == Cases[o.cid]
               w == IF c.kind = "pop" THEN WhyPop(c, o) ELSE Why(c, o) IN
           bad' = IF w = "" THEN bad ELSE Append(bad, <<o.cid, w>>)
Verdict == l = Len(Obs) => PrintT(<<"VERDICT", l, bad>>)
=============================================================================
