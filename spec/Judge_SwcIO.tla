----------------------------- MODULE Judge_SwcIO -----------------------------
(* Judge for C02 (op "read") and C01 (op "roundtrip"): what the real reader / writer did against SwcIO.tla *)
EXTENDS SwcIO, Json, IOUtils
Cases == ndJsonDeserialize(IOEnv.CASES)
Obs   == ndJsonDeserialize(IOEnv.OBS)

OptOf(c) == Opt(c.o.nex, c.o.mode = 0, c.o.mode = 1, IF c.o.src = 0 THEN "latin-1" ELSE c.o.enc)   \* a text stream is never decoded
ColsOf(r) == SubSeq(r, 2, 6) \o SubSeq(r, 8, Len(r))
WhyRead(c, o) ==
    LET op  == OptOf(c)
        e   == Read(c.file, op)
        exp == [k \in 1 .. Len(e.rows) |-> IF c.o.entry = 1 THEN SubSeq(e.rows[k], 1, 7) ELSE e.rows[k]] IN      \* a Tree keeps the seven standard columns
    IF e.st = "raised" THEN (IF o.err # "" THEN ""
                             ELSE IF Len(o.rows) < Len(DataLines(c.file)) THEN "silently-truncated" ELSE "bad-line-accepted")
    ELSE IF o.err # "" THEN "raised-on-valid-file-" \o o.err
    ELSE IF Len(o.rows) # Len(exp) THEN "row-count"
    ELSE IF op.sort THEN
         LET w == RelabelWhy(RowIds(exp), RowPids(exp), [k \in 1 .. Len(exp) |-> ColsOf(exp[k])], o.map,
                             RowIds(o.rows), RowPids(o.rows), [k \in 1 .. Len(exp) |-> ColsOf(o.rows[k])]) IN
         IF w # "" THEN "sorted-" \o w
         ELSE IF o.com # e.com THEN "comments"
         ELSE IF e.warned /\ o.warned # 1 THEN "ignored-fields-without-a-warning" ELSE ""
    ELSE IF o.rows # exp THEN "row-values"
    ELSE IF o.com # e.com THEN "comments"
    ELSE IF e.warned /\ o.warned # 1 THEN "ignored-fields-without-a-warning"        \* (that nothing else warns is not part of the statement)
    ELSE ""

SameLine(w, ol) == IF w.k = "C" THEN ol.k = "C" /\ ol.lead = w.lead /\ ol.body = w.body
                   ELSE ol.k = "D" /\ ol.vals = <<w.id, w.ty, w.fv[1], w.fv[2], w.fv[3], w.fv[4], w.pid>>      \* the value each written token denotes
Bodies(cs) == [k \in 1 .. Len(cs) |-> cs[k][2]]
Col(rs, j) == [k \in 1 .. Len(rs) |-> rs[k][j]]
WhyRT(c, o) ==
    LET W == WrittenFile(c.t, c.off, c.src, c.wc)  R == RTRows(c.t) IN
    IF o.err # "" THEN "raised-" \o o.err
    ELSE IF Len(o.wl) # Len(W) THEN "written-line-count"
    ELSE IF \E k \in 1 .. Len(W) : ~SameLine(W[k], o.wl[k]) THEN "written-line"
    ELSE IF Len(o.rows) # Len(R) THEN "node-count"
    ELSE IF Col(o.rows, 1) # Col(R, 1) THEN "ids"
    ELSE IF Col(o.rows, 7) # Col(R, 7) THEN "parents"
    ELSE IF Col(o.rows, 2) # Col(R, 2) THEN "types"
    ELSE IF o.rows # R THEN "coordinates-or-radii"
    ELSE IF Bodies(o.com) # RTBodies(c.t, c.src, c.wc) THEN "comments"
    ELSE IF o.rows2 # o.rows THEN "second-generation-tree"
    ELSE IF Bodies(o.com2) # Bodies(o.com) THEN "second-generation-comments"
    ELSE IF o.again # 1 THEN "writing-changed-the-tree-or-a-second-write-differs"          \* writing only reads the tree
    ELSE ""

\* large magnitudes (3*10^4 <= |v| <= max float32): the written token denotes Round4 of the value (limb arithmetic), and the value read back
\* is the original float32 (its spacing exceeds 10^-4 there, so the rounded decimal still identifies it)
WhyRTBig(c, o) ==
    IF o.err # "" THEN "raised-" \o o.err
    ELSE IF o.ids # [k \in 1 .. Len(c.t.P) |-> k - 1 + c.off] \/ o.pids # [k \in 1 .. Len(c.t.P) |-> IF c.t.P[k] = -1 THEN -1 ELSE c.t.P[k] + c.off] THEN "written-ids"
    ELSE IF Len(o.tok) # Len(c.t.v) THEN "written-row-count"
    ELSE IF \E k \in 1 .. Len(c.t.v) : \E j \in 1 .. 4 : o.tok[k][j] # Round4Big(c.t.v[k][j]) THEN "written-value-of-large-magnitude"
    ELSE IF o.bpids # c.t.P \/ o.btys # c.t.ty THEN "parents-or-types"
    ELSE IF \E k \in 1 .. Len(c.t.v) : \E j \in 1 .. 4 : o.back[k][j] # c.t.v[k][j] THEN "coordinates-or-radii-of-large-magnitude"
    ELSE ""

Why(c, o) == IF c.op = "read" THEN WhyRead(c, o) ELSE IF c.op = "roundtrip_big" THEN WhyRTBig(c, o) ELSE WhyRT(c, o)
VARIABLES l, bad
Init == l = 0 /\ bad = <<>> /\ RInit({<<>>}, {Opt(0, FALSE, FALSE, "utf-8")})
Next == /\ l < Len(Obs)
        /\ l' = l + 1
        /\ LET o == Obs[l + 1]
               w == Why(Cases[o.cid], o) IN
           bad' = IF w = "" THEN bad ELSE Append(bad, <<o.cid, w>>)
        /\ UNCHANGED rvars
Verdict == l = Len(Obs) => PrintT(<<"VERDICT", l, bad>>)
=============================================================================
