CONSTANT G = 7
INIT Init
NEXT Next
INVARIANT Emitted
