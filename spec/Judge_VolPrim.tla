---------------------------- MODULE Judge_VolPrim ----------------------------
(* Judge for C13: o.ratio = observed volume / (pi * unit^3 * expected) in units of 10^-9 (or the observed volume itself when the *)
(* expected volume is zero); expected is recomputed here as the defining integral                                              *)
EXTENDS VolPrim, Json, IOUtils
Cases == ndJsonDeserialize(IOEnv.CASES)
Obs   == ndJsonDeserialize(IOEnv.OBS)
Why(c, o) ==
    IF o.err # "" THEN "raised-" \o o.err
    ELSE IF c.exp # Truth(c) THEN "MACHINERY-expected-value-is-not-the-integral"
    ELSE LET tol == IF c.k \in {"sphfru", "sphfruU"} THEN 5000 ELSE 50 IN
         IF c.exp[1] = 0 THEN (IF AbsI(o.ratio) > tol THEN c.k \o "-" \o "should-be-zero" ELSE "")
         ELSE IF AbsI(o.ratio - 1000000000) > tol THEN c.k \o (IF c.k \in {"sphfru", "sphfruU"} THEN "-" \o Region(R(c.a), R(c.b), R(c.c)) ELSE "") ELSE ""
VARIABLES l, bad
Init == l = 0 /\ bad = <<>>
Next == /\ l < Len(Obs)
        /\ l' = l + 1
        /\ LET o == Obs[l + 1]
               w == Why(Cases[o.cid], o) IN
           bad' = IF w = "" THEN bad ELSE Append(bad, <<o.cid, w>>)
Verdict == l = Len(Obs) => PrintT(<<"VERDICT", l, bad>>)
=============================================================================
