----------------------------- MODULE MC_Checkers -----------------------------
(***************************************************************************)
(* Algorithm layer for C18's checkers, on EVERY parent table with at most  *)
(* MaxN rows:                                                              *)
(*  - get_dsu: the pointer-jumping loop (dsu[i] := dsu[dsu[i]] in passes   *)
(*    until a pass changes nothing) terminates and ends with one label iff *)
(*    the table is connected;                                              *)
(*  - has_cyclic: rows in order, "same set?" then "union" on the concrete  *)
(*    disjoint-set structure of Dsu.tla, answers HasCycle;                 *)
(*  - the 'nearest' repair algorithm on forests yields a repaired tree.    *)
(***************************************************************************)
EXTENDS Checkers
CONSTANTS MaxN, Alg
VARIABLES P, d, i, flag, parent, rank, ans, pc
vars == <<P, d, i, flag, parent, rank, ans, pc>>

Init == /\ P \in UNION { AllTables(n) : n \in 1 .. MaxN }
        /\ d = [k \in 1 .. Len(P) |-> IF P[k] = -1 THEN k - 1 ELSE P[k]]
        /\ i = 0 /\ flag = TRUE /\ parent = Ident(Len(P)) /\ rank = [k \in 1 .. Len(P) |-> 0] /\ ans = "none"
        /\ pc = Alg
\* get_dsu
Jump == /\ pc = "jump" /\ i < Len(P)
        /\ LET p == d[i + 1] IN
           IF d[i + 1] # d[p + 1] THEN d' = [d EXCEPT ![i + 1] = d[p + 1]] /\ flag' = FALSE ELSE UNCHANGED <<d, flag>>
        /\ i' = i + 1 /\ UNCHANGED <<P, parent, rank, ans, pc>>
EndPass == /\ pc = "jump" /\ i = Len(P)
           /\ IF flag THEN pc' = "done" /\ ans' = (IF Cardinality(Range(d)) = 1 THEN "single" ELSE "several") /\ UNCHANGED <<i, flag>>
              ELSE i' = 0 /\ flag' = TRUE /\ UNCHANGED <<pc, ans>>
           /\ UNCHANGED <<P, d, parent, rank>>
\* has_cyclic
CycRow == /\ pc = "cyc" /\ i < Len(P)
          /\ IF P[i + 1] = -1 THEN i' = i + 1 /\ UNCHANGED <<parent, rank, ans, pc>>
             ELSE IF Root(parent, i) = Root(parent, P[i + 1]) THEN ans' = "cyclic" /\ pc' = "done" /\ UNCHANGED <<i, parent, rank>>
             ELSE LET r == UnionC(parent, rank, i, P[i + 1]) IN parent' = r[1] /\ rank' = r[2] /\ i' = i + 1 /\ UNCHANGED <<ans, pc>>
          /\ UNCHANGED <<P, d, flag>>
CycEnd == pc = "cyc" /\ i = Len(P) /\ ans' = "acyclic" /\ pc' = "done" /\ UNCHANGED <<P, d, i, flag, parent, rank>>
Next == Jump \/ EndPass \/ CycRow \/ CycEnd \/ (pc = "done" /\ UNCHANGED vars)
Spec == Init /\ [][Next]_vars /\ WF_vars(Jump \/ EndPass \/ CycRow \/ CycEnd)
Terminates == <>(pc = "done")
JumpRight == pc = "done" /\ Alg = "jump" => (ans = "single") <=> Connected(P)
CycRight  == pc = "done" /\ Alg = "cyc" => (ans = "cyclic") <=> HasCycle(P)
=============================================================================
