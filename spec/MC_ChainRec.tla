----------------------------- MODULE MC_ChainRec -----------------------------
(***************************************************************************)
(* Justifies Trace_ChainRec: on a chain, StructRec admits exactly one      *)
(* event sequence once the tokens are fixed (enter 0..n-1 downwards, each  *)
(* handed its predecessor's token; leave n-1..0 upwards, each handed its   *)
(* successor's token; return the start node's).  TLC explores, for chains  *)
(* of up to MaxN nodes, EVERY order in which StructRec allows the events   *)
(* to happen and checks that there is no choice: at most one event is      *)
(* ever enabled, and it is the one Trace_ChainRec expects.                 *)
(***************************************************************************)
EXTENDS StructRec
CONSTANT MaxN
MinusOne == -1
VARIABLES n, start, entered, left, vout, lout, done
vars == <<n, start, entered, left, vout, lout, done>>
P == [k \in 1 .. n |-> k - 2]                      \* <<-1, 0, 1, ...>>
ETok(i) == 100 + i
LTok(i) == 200 + i
Init == n \in 1 .. MaxN /\ start \in 0 .. n - 1 /\ entered = {} /\ left = {} /\ vout = <<>> /\ lout = <<>> /\ done = FALSE
CanEnter(i) == \E pin \in {NoVal} \cup { ETok(j) : j \in 0 .. n - 1 } : EnterWhy(P, start, "both", entered, left, vout, i, pin) = ""
CanLeave(i) == LeaveWhy(P, start, "both", entered, left, lout, i,
                        IF i = n - 1 THEN <<>> ELSE <<(IF i + 1 \in left THEN lout[i + 1] ELSE -99)>>) = ""
Enter(i) == ~done /\ CanEnter(i) /\ entered' = entered \cup {i} /\ vout' = (i :> ETok(i)) @@ vout /\ UNCHANGED <<n, start, left, lout, done>>
Leave(i) == ~done /\ CanLeave(i) /\ left' = left \cup {i} /\ lout' = (i :> LTok(i)) @@ lout /\ UNCHANGED <<n, start, entered, vout, done>>
Ret      == ~done /\ ReturnWhy(P, start, "both", entered, left, lout, IF start \in left THEN lout[start] ELSE -99) = "" /\ done' = TRUE
            /\ UNCHANGED <<n, start, entered, left, vout, lout>>
Next == (\E i \in 0 .. n - 1 : Enter(i) \/ Leave(i)) \/ Ret \/ (done /\ UNCHANGED vars)
\* what Trace_ChainRec expects next
Deepest == IF entered = {} THEN start - 1 ELSE CHOOSE i \in entered : \A j \in entered : j <= i
ExpectEnter == IF entered = {} THEN start ELSE Deepest + 1
NoChoice == /\ \A i \in 0 .. n - 1 : (~done /\ CanEnter(i)) => i = ExpectEnter /\ left = {}
            /\ \A i \in 0 .. n - 1 : (~done /\ CanLeave(i)) => entered = start .. n - 1 /\ i = (n - 1) - Cardinality(left)
            /\ ENABLED Ret => left = start .. n - 1
=============================================================================
