------------------------------ MODULE MC_Folder ------------------------------
(* Welford's streaming update against the definitions, on every sequence of up to MaxN images of V voxels over Vals (exact rationals) *)
EXTENDS Folder
CONSTANTS MaxN, V, Vals
VARIABLES imgs, s
Init == imgs = <<>> /\ s = WInit(V)
Feed(img) == Len(imgs) < MaxN /\ imgs' = Append(imgs, img) /\ s' = WStep(s, img)
Next == \E img \in [1 .. V -> Vals] : Feed(img)
Inv == WInv(s, imgs)
=============================================================================
