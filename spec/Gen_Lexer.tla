------------------------------ MODULE Gen_Lexer ------------------------------
(* every string over Alphabet up to MaxLen with what the tokeniser makes of it *)
EXTENDS Lexer, SequencesExt, Json, IOUtils
CONSTANTS Alphabet, MaxLen
Strings == UNION { [1 .. n -> Alphabet] : n \in 0 .. MaxLen }
AllSeq == SetToSeq(Strings)
Numbered == [j \in 1 .. Len(AllSeq) |-> [cid |-> j, s |-> AllSeq[j]]]
VARIABLE done
Init == done = ndJsonSerialize(IOEnv.OUT, Numbered)
Next == FALSE /\ UNCHANGED done
Emitted == done => PrintT(<<"CASES", Len(AllSeq)>>)
=============================================================================
