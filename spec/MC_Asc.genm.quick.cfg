CONSTANTS MaxPts = 3 MaxDepth = 1 MaxAlts = 2 MaxMark = 1 Emit = TRUE Fixed = "asis" LeadingEmpty = TRUE
SPECIFICATION Spec
INVARIANT EmitDoc
