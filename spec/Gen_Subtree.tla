---------------------------- MODULE Gen_Subtree ----------------------------
(* Generator: TLC enumerates the quantifier domain of C06 up to the bounds and *)
(* writes one case per line; the executor replays each into the real library.  *)
EXTENDS Subtree, SequencesExt, Json, IOUtils
CONSTANTS MaxN, MaxNHeavy

TySeq(n)     == [i \in 1 .. n |-> 2 + ((i - 1) % 3)]
Attr(n, ty)  == [i \in 1 .. n |-> <<ty[i], (7 * (i - 1)) % 5, (3 * (i - 1)) % 4, 1 + ((i - 1) % 3)>>]
Base(op, P)  == [op |-> op, P |-> P, attr |-> Attr(Len(P), TySeq(Len(P)))]
NonRoot(P)   == 1 .. Len(P) - 1

Light == UNION { Topos(n) : n \in 1 .. MaxN }
Heavy == UNION { Topos(n) : n \in 1 .. MaxNHeavy }

CGet    == { Base("get_subtree", P) @@ [i |-> i] : P \in Light, i \in 0 .. MaxN - 1 }
CRemove == UNION { { Base("to_subtree", P) @@ [R |-> R] : R \in SUBSET NonRoot(P) } : P \in Light }
CEnter  == UNION { { Base("cut_enter", P) @@ [S |-> S, D |-> D] : S \in SUBSET NonRoot(P), D \in {1, 2, 3, 99} } : P \in Heavy }
CLeave  == UNION { { Base("cut_leave", P) @@ [S |-> S, M |-> M] : S \in SUBSET NonRoot(P), M \in 0 .. 2 } : P \in { Q \in Heavy : Len(Q) >= 4 } }
CType   == UNION { { [op |-> "cut_type", P |-> P, attr |-> Attr(Len(P), ty), t |-> t]
                     : ty \in { q \in [1 .. Len(P) -> {1, 2, 3}] : \E k \in 1 .. Len(P) : q[k] = 2 \/ q[k] = 3 }, t \in {2, 3} } : P \in Heavy }
COrder  == { Base("cut_order", P) @@ [k |-> k] : P \in Light, k \in 1 .. 3 }
CTip    == UNION { { Base("cut_shorttip", P) @@ [el |-> el, thr |-> thr]
                     : el \in [1 .. Len(P) -> 1 .. 2], thr \in 0 .. 4 } : P \in { Q \in Heavy : Len(Q) >= 3 } }

\* soma (type 1) at the root, the other nodes axon / basal / apical in rotation
TyN(n, s)    == [i \in 1 .. n |-> IF i = 1 THEN 1 ELSE 2 + ((i + s) % 3)]
CNeu    == { [op |-> "neurites", P |-> P, attr |-> Attr(Len(P), TyN(Len(P), s)), dend |-> d] : P \in Light, s \in 0 .. 2, d \in {0, 1} }

Valid(c) == CASE c.op = "get_subtree" -> c.i \in Nodes(c.P)
              [] c.op = "cut_type"    -> \E k \in 1 .. Len(c.P) : c.attr[k][1] = c.t
              [] c.op = "cut_shorttip" -> c.el[1] = 1            \* the root has no incoming edge: fix its dummy length
              [] OTHER -> TRUE

All      == { c \in CGet \cup CRemove \cup CEnter \cup CLeave \cup CType \cup COrder \cup CTip \cup CNeu : Valid(c) }
AllSeq   == SetToSeq(All)
Numbered == [k \in 1 .. Len(AllSeq) |-> [cid |-> k] @@ AllSeq[k]]

VARIABLE done
Init == done = ndJsonSerialize(IOEnv.OUT, Numbered)
Next == FALSE /\ UNCHANGED done
Emitted == done => PrintT(<<"CASES", Len(AllSeq)>>)
=============================================================================
