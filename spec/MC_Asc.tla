------------------------------- MODULE MC_Asc -------------------------------
(***************************************************************************)
(* Producer of ASC documents with the reference interpreter, and the       *)
(* statements of C15 evaluated on every finished document against the      *)
(* transcribed parser:                                                     *)
(*   Faithful          parser(document) = the table the document denotes   *)
(*   RejectsTruncated  every proper prefix of the token stream is rejected *)
(*   RejectsCorrupt    every single-point corruption is rejected           *)
(* Markers (colours, comments) are produced at every place the grammar     *)
(* allows them and never touch the reference table (MarkersIrrelevant is   *)
(* Faithful on documents with markers).                                    *)
(* With Emit = TRUE every finished document is printed for the executor.   *)
(***************************************************************************)
EXTENDS Asc
CONSTANTS MaxPts, MaxDepth, MaxAlts, MaxMark, Emit, Fixed, LeadingEmpty
VARIABLES toks, stk, last, after, exp, ph, nmark, label, fresh
\* stk: one frame <<split parent, alternatives so far>> per open split; last: last point of the current branch (the split parent right
\* after "(" or "|"); after: a split has just been closed (the branch is over); fresh: nothing produced yet in the current alternative
vars == <<toks, stk, last, after, exp, ph, nmark, label, fresh>>
Put(ts) == toks' = toks \o ts
Init == toks = <<LP>> /\ stk = <<>> /\ last = -1 /\ after = FALSE /\ exp = <<>> /\ ph = "pre" /\ nmark = 0 /\ label = "" /\ fresh = FALSE

PreColour == ph = "pre" /\ nmark < MaxMark /\ Put(ColourToks("Red")) /\ nmark' = nmark + 1 /\ UNCHANGED <<stk, last, after, exp, ph, label, fresh>>
Label(l)  == ph = "pre" /\ Put(<<LP, L(l), RP>>) /\ ph' = "body" /\ label' = (IF l \in {"Axon", "AXON"} THEN "AXON" ELSE "DENDRITE")
             /\ UNCHANGED <<stk, last, after, exp, nmark, fresh>>
Point     == ph = "body" /\ ~after /\ Len(exp) < MaxPts
             /\ Put(PointToks(Len(exp))) /\ exp' = Append(exp, last) /\ last' = Len(exp) /\ fresh' = FALSE
             /\ UNCHANGED <<stk, after, ph, nmark, label>>
Colour    == ph = "body" /\ ~after /\ nmark < MaxMark /\ Put(ColourToks("Blue")) /\ nmark' = nmark + 1
             /\ UNCHANGED <<stk, last, after, exp, ph, label, fresh>>
Comment   == ph = "body" /\ exp # <<>> /\ nmark < MaxMark /\ Put(<<Cm(" note 1 2 (x) | y")>>) /\ nmark' = nmark + 1
             /\ UNCHANGED <<stk, last, after, exp, ph, label, fresh>>
OpenSplit == ph = "body" /\ ~after /\ exp # <<>> /\ ~fresh /\ Len(stk) < MaxDepth     \* a split follows a point of its own branch
             /\ Put(<<LP>>) /\ stk' = Append(stk, <<last, 1>>) /\ fresh' = TRUE /\ UNCHANGED <<last, after, exp, ph, nmark, label>>
NextAlt   == ph = "body" /\ stk # <<>> /\ stk[Len(stk)][2] < MaxAlts
             /\ (LeadingEmpty \/ ~(fresh /\ stk[Len(stk)][2] = 1))                       \* LeadingEmpty: the first alternative may be empty too
             /\ Put(<<OR>>) /\ last' = stk[Len(stk)][1] /\ after' = FALSE /\ fresh' = TRUE
             /\ stk' = [stk EXCEPT ![Len(stk)] = <<@[1], @[2] + 1>>] /\ UNCHANGED <<exp, ph, nmark, label>>
CloseSplit == ph = "body" /\ stk # <<>> /\ ~(fresh /\ stk[Len(stk)][2] = 1)             \* "( )" is not a split
             /\ Put(<<RP>>) /\ stk' = SubSeq(stk, 1, Len(stk) - 1) /\ after' = TRUE /\ fresh' = FALSE
             /\ UNCHANGED <<last, exp, ph, nmark, label>>
End       == ph = "body" /\ stk = <<>> /\ exp # <<>> /\ Put(<<RP>>) /\ ph' = "done" /\ UNCHANGED <<stk, last, after, exp, nmark, label, fresh>>
Next == PreColour \/ (\E l \in {"Axon", "DENDRITE", "Dendrite"} : Label(l)) \/ Point \/ Colour \/ Comment \/ OpenSplit \/ NextAlt \/ CloseSplit \/ End
Spec == Init /\ [][Next]_vars

Done == ph = "done"
Faithful == Done => LET r == ParseWith(toks, Fixed) IN ~r.err /\ r.nodes = exp /\ r.label = label
RejectsTruncated == Done => \A k \in 0 .. Len(toks) - 1 : ParseWith(SubSeq(toks, 1, k), Fixed).err
RejectsCorrupt == Done => \A p \in PointStarts(toks) : \A kind \in CorruptKinds : ParseWith(Corrupt(toks, p, kind), Fixed).err
RefAgrees == Done => RefTable(toks) = exp /\ RefLabel(toks) = label          \* the function form of the reference interpreter is the producer's table
EmitDoc == (Emit /\ Done) => PrintT(<<"D", toks, exp, label>>)
=============================================================================
