--------------------------- MODULE Trace_ChainRec ---------------------------
(***************************************************************************)
(* StructRec specialised to an unbranched chain 0 - 1 - ... - (n-1)        *)
(* (node i+1 is the only child of node i).  On a chain the StructRec       *)
(* state is determined by three scalars, so a trace of 2n+1 events is      *)
(* validated in O(n) with O(1) state: this is what lets TLC itself judge   *)
(* depth 10^5 (far beyond the interpreter's recursion limit).              *)
(*   phase "down": the next event must be Enter(cur, last value, v)        *)
(*   phase "up"  : the next event must be Leave(cur, <<last value>> or <<>> at the tip, v) *)
(* MC_ChainRec checks on small n that this module accepts exactly the      *)
(* traces StructRec accepts.                                               *)
(***************************************************************************)
EXTENDS Integers, Sequences, TLC, Json, IOUtils
Obs == ndJsonDeserialize(IOEnv.OBS)          \* one record: [n, start, mode ("both"), events, err]
O   == Obs[1]
VARIABLES k, cur, phase, last, why
Init == k = 0 /\ cur = O.start /\ phase = "down" /\ last = -1 /\ why = ""
Step == /\ why = "" /\ k < Len(O.events)
        /\ LET e == O.events[k + 1] IN
           /\ k' = k + 1
           /\ IF phase = "down" THEN
                 IF e[1] # "E" \/ e[2] # cur THEN why' = "expected-enter-of-next-node" /\ UNCHANGED <<cur, phase, last>>
                 ELSE IF e[3] # last THEN why' = "not-the-parents-value" /\ UNCHANGED <<cur, phase, last>>
                 ELSE /\ why' = "" /\ last' = e[4]
                      /\ IF cur = O.n - 1 THEN phase' = "tip" /\ cur' = cur ELSE phase' = "down" /\ cur' = cur + 1
              ELSE IF phase \in {"tip", "up"} THEN
                 IF e[1] # "L" \/ e[2] # cur THEN why' = "expected-leave-of-deepest-unleft-node" /\ UNCHANGED <<cur, phase, last>>
                 ELSE IF e[3] # (IF phase = "tip" THEN <<>> ELSE <<last>>) THEN why' = "not-the-childrens-values" /\ UNCHANGED <<cur, phase, last>>
                 ELSE /\ why' = "" /\ last' = e[4]
                      /\ IF cur = O.start THEN phase' = "ret" /\ cur' = cur ELSE phase' = "up" /\ cur' = cur - 1
              ELSE  \* phase = "ret"
                 IF e[1] # "R" \/ e[2] # last THEN why' = "returned-value-is-not-the-start-nodes" /\ UNCHANGED <<cur, phase, last>>
                 ELSE why' = "" /\ phase' = "done" /\ UNCHANGED <<cur, last>>
Next == Step
Final == (why # "" \/ k = Len(O.events)) =>
            PrintT(<<"VERDICT", k, IF O.err # "" THEN << <<1, "raised-" \o O.err>> >>
                                   ELSE IF why # "" THEN << <<1, why>> >>
                                   ELSE IF phase # "done" THEN << <<1, "trace-ends-before-return">> >> ELSE <<>> >>)
=============================================================================
