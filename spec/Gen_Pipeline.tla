---------------------------- MODULE Gen_Pipeline ----------------------------
(* X01: specification-level statement (flattening preserves the meaning) and the case generator *)
EXTENDS Pipeline, SequencesExt, Json, IOUtils
CONSTANT M
Xs == -2 .. 2
Tops == { e \in Exprs2(M) : IsSeq(e) }
\* splicing nested compositions in does not change what the composition computes
ASSUME \A e \in Tops : \A x \in Xs : Call(e, x) = Mean(e, x)
\* composition is associative: regrouping the items of a composition changes nothing
ASSUME \A a, b, c \in Exprs1(2) : \A x \in Xs :
          Call([op |-> "seq", items |-> <<[op |-> "seq", items |-> <<a, b>>], c>>], x) = Call([op |-> "seq", items |-> <<a, [op |-> "seq", items |-> <<b, c>>]>>], x)
AllSeq == SetToSeq(Tops)
Numbered == [j \in 1 .. Len(AllSeq) |-> [cid |-> j, e |-> AllSeq[j]]]
VARIABLE done
Init == done = ndJsonSerialize(IOEnv.OUT, Numbered)
Next == FALSE /\ UNCHANGED done
Emitted == done => PrintT(<<"CASES", Len(AllSeq)>>)
=============================================================================
