---------------------------- MODULE Gen_Traverse ----------------------------
EXTENDS SwcBase, SequencesExt, Json, IOUtils
CONSTANT MaxN
All == UNION { { [P |-> P, start |-> s, mode |-> m] : s \in Nodes(P), m \in {"enter", "leave", "both"} } : P \in UNION { Topos(n) : n \in 1 .. MaxN } }
AllSeq   == SetToSeq(All)
Numbered == [k \in 1 .. Len(AllSeq) |-> [cid |-> k] @@ AllSeq[k]]
VARIABLE done
Init == done = ndJsonSerialize(IOEnv.OUT, Numbered)
Next == FALSE /\ UNCHANGED done
Emitted == done => PrintT(<<"CASES", Len(AllSeq)>>)
=============================================================================
