---------------------------- MODULE Gen_Traverse ----------------------------
EXTENDS SwcBase, SequencesExt, Json, IOUtils
CONSTANTS MaxN, MaxNHist
All == UNION { { [P |-> P, start |-> s, mode |-> m] : s \in Nodes(P), m \in {"enter", "leave", "both"} } : P \in UNION { Topos(n) : n \in 1 .. MaxN } }
\* histories: traverse the tree with topology pre (every mode), re-parent node ed[1] to ed[2] in place, then record the traversal of P
Hist == UNION { UNION { { [P |-> Reparent(P0, e[1], e[2]), pre |-> P0, ed |-> e, start |-> s, mode |-> m] : s \in Nodes(P0), m \in {"enter", "leave", "both"} }
                        : e \in Edits(P0) } : P0 \in UNION { Topos(n) : n \in 2 .. MaxNHist } }
AllSeq   == SetToSeq(All \cup Hist)
Numbered == [k \in 1 .. Len(AllSeq) |-> [cid |-> k] @@ AllSeq[k]]
VARIABLE done
Init == done = ndJsonSerialize(IOEnv.OUT, Numbered)
Next == FALSE /\ UNCHANGED done
Emitted == done => PrintT(<<"CASES", Len(AllSeq)>>)
=============================================================================
