----------------------------- MODULE Judge_Lexer -----------------------------
(* Judge for the tokeniser stage of C15: tokens produced by the real Lexer on a character string against Lexer.tla *)
(* observed token: <<kind, text, micro, neg>> with kind in ( ) | ; F L; micro = value * 10^6 if that is an integer below 2^31 else -1 *)
EXTENDS Lexer, Json, IOUtils
Cases == ndJsonDeserialize(IOEnv.CASES)
Obs   == ndJsonDeserialize(IOEnv.OBS)
Join(cs) == LET RECURSIVE J(_) J(k) == IF k > Len(cs) THEN "" ELSE cs[k] \o J(k + 1) IN J(1)
TokOK(e, o) ==
    CASE e[1] \in Single -> o[1] = e[1]
      [] e[1] = ";"      -> o[1] = ";" /\ o[2] = Join(e[2])
      [] e[1] = "L"      -> o[1] = "L" /\ o[2] = Join(e[2])
      [] e[1] = "F"      -> o[1] = "F" /\ (Micro(e[2]) = -1 \/ (o[3] = Micro(e[2]) /\ (o[4] = 1) = (IsNegative(e[2]) /\ Micro(e[2]) # 0)))
Why(c, o) ==
    LET r == Lex(c.s) IN
    IF o.err = "machinery" THEN ""                                                      \* the tokeniser class is not importable under this name: stage skipped
    ELSE IF ~r[2] THEN (IF o.err = "" THEN "tokeniser-accepted-a-malformed-number" ELSE "")
    ELSE IF o.err # "" THEN "tokeniser-raised-" \o o.err
    ELSE IF Len(o.toks) # Len(r[1]) THEN "token-count"
    ELSE IF \E k \in DOMAIN r[1] : ~TokOK(r[1][k], o.toks[k]) THEN "token"
    ELSE ""
VARIABLES l, bad
Init == l = 0 /\ bad = <<>>
Next == /\ l < Len(Obs)
        /\ l' = l + 1
        /\ LET o == Obs[l + 1]
               w == Why(Cases[o.cid], o) IN
           bad' = IF w = "" THEN bad ELSE Append(bad, <<o.cid, w>>)
Verdict == l = Len(Obs) => PrintT(<<"VERDICT", l, bad>>)
=============================================================================
