CONSTANTS PipeLen = 2 StartN = {3} NRandom = 400 LongDepth = 6 SingleN = {5}
INIT Init
NEXT Next
INVARIANT Emitted
