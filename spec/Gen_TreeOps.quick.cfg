CONSTANTS PipeLen = 2 StartN = {3} NRandom = 300 LongDepth = 6
INIT Init
NEXT Next
INVARIANT Emitted
