------------------------------ MODULE Subtree ------------------------------
(***************************************************************************)
(* C06 — subtree extraction and pruning keep exactly the specified nodes.  *)
(* Property layer: for each operation, the declarative set of survivors,   *)
(* and the relation a result must satisfy ("keyed by old id").             *)
(* Algorithm layer (PropagateRemoval / ToSubTopology, as the code does     *)
(* it) is in SubtreeAlg.tla and is checked against this module by TLC.     *)
(***************************************************************************)
EXTENDS SwcBase

\* ---- survivors ----------------------------------------------------------
KeepSubtree(P, i)   == Desc(P, i)
KeepRemove(P, R)    == { j \in Nodes(P) : Anc(P, j) \cap R = {} }

\* cut_tree, enter mode: the callback sees the value its parent's call returned.
\* Callbacks are modelled by the family  value = depth,  remove <=> node \in S \/ depth >= D.
EnterRemoves(P, S, D, i) == i \in S \/ Depth(P, i) >= D
KeepCutEnter(P, S, D) == { j \in Nodes(P) : \A a \in Anc(P, j) : ~EnterRemoves(P, S, D, a) }

\* cut_tree, leave mode: the callback sees its children's values.
\* Family: value = size of the subtree below, remove <=> node \in S \/ size <= M.
Size(P, i) == Cardinality(Desc(P, i))
LeaveRemoves(P, S, M, i) == i \in S \/ Size(P, i) <= M
KeepCutLeave(P, S, M) == { j \in Nodes(P) : \A a \in Anc(P, j) : ~LeaveRemoves(P, S, M, a) }

\* CutByType: nodes of the type and all their ancestors
KeepType(P, ty, t)  == { i \in Nodes(P) : \E j \in Desc(P, i) : ty[j + 1] = t }

\* CutByFurcationOrder(k): level(root) = 0, +1 at every furcation below the root
RECURSIVE Level(_, _)
Level(P, i) == IF Par(P, i) = -1 THEN 0
               ELSE Level(P, Par(P, i)) + (IF IsFurc(P, i) THEN 1 ELSE 0)
KeepOrder(P, k)     == { i \in Nodes(P) : Level(P, i) < k }

\* CutShortTipBranch(thr): el[i+1] = length of the edge into node i (integer lattice length).
\* A tip chain below a furcation f through child c: c, then only children, down to a tip, no furcation on the way.
RECURSIVE ChainDown(_, _)
ChainDown(P, c) == IF IsTip(P, c) THEN {c}
                   ELSE IF IsFurc(P, c) THEN {}                        \* not a terminal chain
                   ELSE LET d == ChainDown(P, CHOOSE k \in Kids(P, c) : TRUE) IN
                        IF d = {} THEN {} ELSE {c} \cup d
ChainLen(el, C)  == SumOver(C, [i \in C |-> el[i + 1]])
ShortChains(P, el, thr) ==
    UNION { LET C == ChainDown(P, c) IN IF C # {} /\ ChainLen(el, C) <= thr THEN C ELSE {}
            : c \in { c \in Nodes(P) : Par(P, c) # -1 /\ IsFurc(P, Par(P, c)) } }
KeepShortTip(P, el, thr) == Nodes(P) \ ShortChains(P, el, thr)

\* Tree.get_neurites: one subtree per child of the root; Tree.get_dendrites: those whose first node is a basal (3) or apical (4) dendrite
Neurites(P)      == { Desc(P, c) : c \in Kids(P, 0) }
Dendrites(P, ty) == { Desc(P, c) : c \in { k \in Kids(P, 0) : ty[k + 1] \in {3, 4} } }

\* ---- the relation every result must satisfy -----------------------------
\* c.P, c.attr : input;  K : expected survivors;  map : new id -> old id;  rpid, rattr : the result
ResultWhy(P, attr, K, map, rpid, rattr) ==
    IF ~Injective(map)                 THEN "mapping-not-injective"
    ELSE IF Range(map) # K             THEN "kept-set"
    ELSE IF Len(rpid) # Len(map) \/ Len(rattr) # Len(map) THEN "lengths"
    ELSE IF \E k \in DOMAIN map : rattr[k] # attr[map[k] + 1] THEN "attributes"
    ELSE IF \E k \in DOMAIN map :
              rpid[k] # (IF Par(P, map[k]) \in K THEN PosOf(map, Par(P, map[k])) ELSE -1)
                                       THEN "parent-relation"
    ELSE IF Len(map) > 0 /\ ~WF(rpid)  THEN "not-well-formed"
    ELSE ""
=============================================================================
