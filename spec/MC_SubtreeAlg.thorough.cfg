CONSTANT MaxN = 6
SPECIFICATION Spec
INVARIANT Refines
INVARIANT OnlyMarkDown
PROPERTY Terminates
