------------------------------- MODULE Decomp -------------------------------
(***************************************************************************)
(* C08 — branches, paths, tips and furcations decompose the tree exactly.  *)
(* Property layer: declarative definitions (no algorithm) and the          *)
(* decomposition theorems that TLC checks on every small topology.         *)
(***************************************************************************)
EXTENDS SwcBase

Critical(P) == {0} \cup Furcs(P) \cup Tips(P)
Starts(P)   == {0} \cup Furcs(P)
OnlyKid(P, i) == CHOOSE k \in Kids(P, i) : TRUE

\* the maximal chain that leaves through child c and stops at the first furcation or tip
RECURSIVE ChainFrom(_, _)
ChainFrom(P, c) == IF IsTip(P, c) \/ IsFurc(P, c) THEN <<c>> ELSE <<c>> \o ChainFrom(P, OnlyKid(P, c))
Branches(P)  == { <<s>> \o ChainFrom(P, c) : s \in Starts(P), c \in { k \in Nodes(P) : Par(P, k) \in Starts(P) } } 
BranchSet(P) == { b \in Branches(P) : Par(P, b[2]) = b[1] }

RECURSIVE PathTo(_, _)
PathTo(P, i) == IF Par(P, i) = -1 THEN <<i>> ELSE Append(PathTo(P, Par(P, i)), i)
Paths(P)     == { PathTo(P, t) : t \in Tips(P) }

EdgesOf(b)   == { <<b[k], b[k + 1]>> : k \in 1 .. Len(b) - 1 }       \* (parent, child) pairs along a sequence
DEdges(P)    == { <<Par(P, i), i>> : i \in { j \in Nodes(P) : Par(P, j) # -1 } }
Interior(b)  == { b[k] : k \in 2 .. Len(b) - 1 }
PassThrough(P, i) == Cardinality(Kids(P, i)) = 1 /\ Par(P, i) # -1

\* --- the statement of C08, as predicates over a candidate set of branches B ---
EdgePartition(P, B) == /\ UNION { EdgesOf(b) : b \in B } = DEdges(P)
                       /\ \A a, b \in B : a # b => EdgesOf(a) \cap EdgesOf(b) = {}
BranchEnds(P, B)    == \A b \in B : /\ Len(b) >= 2
                                    /\ b[1] \in Starts(P)
                                    /\ b[Len(b)] \in Furcs(P) \cup Tips(P)
                                    /\ \A i \in Interior(b) : PassThrough(P, i)
                                    /\ \A k \in 1 .. Len(b) - 1 : Par(P, b[k + 1]) = b[k]
OnePathPerTip(P, Q) == /\ { q[Len(q)] : q \in Q } = Tips(P)
                       /\ \A q \in Q : q = PathTo(P, q[Len(q)])
                       /\ Cardinality(Q) = Cardinality(Tips(P))

\* branch tree: critical nodes, each joined to the start of the branch that ends in it
BTParent(P, k) == IF k = 0 THEN -1 ELSE (CHOOSE b \in BranchSet(P) : b[Len(b)] = k)[1]
BTRemember(P, k) == { b \in BranchSet(P) : b[1] = k }

\* the branch a non-furcation node lies on (a single node <<0>> for the one-node tree)
BranchOf(P, i) == IF Len(P) = 1 THEN <<0>> ELSE CHOOSE b \in BranchSet(P) : i \in Range(b) /\ (i # b[1] \/ i = 0)

PathLen(el, q) == SumOver(Range(q) \ {0}, [i \in Range(q) \ {0} |-> el[i + 1]])
=============================================================================
