--------------------------- MODULE Judge_Pipeline ---------------------------
(* Judge for X01: the object built by swcgeom.transforms.Transforms against Pipeline.tla *)
EXTENDS Pipeline, Json, IOUtils
Cases == ndJsonDeserialize(IOEnv.CASES)
Obs   == ndJsonDeserialize(IOEnv.OBS)
ReprPrim(p) == CASE p.op = "add" -> "Add(k=" \o ToString(p.k) \o ")"
                 [] p.op = "mul" -> "Mul(k=" \o ToString(p.k) \o ")"
                 [] p.op = "neg" -> "Neg()"
                 [] p.op = "id"  -> "Identity()"
RECURSIVE Join(_, _)
Join(ps, i) == IF i > Len(ps) THEN "" ELSE (IF i > 1 THEN ", " ELSE "") \o ReprPrim(ps[i]) \o Join(ps, i + 1)
Name(p) == <<p.op, p.k>>
Why(c, o) ==
    LET ps == Flat(c.e)  n == Len(ps) IN
    IF o.err # "" THEN "raised-" \o o.err
    ELSE IF o.len # n THEN "length"
    ELSE IF o.items # [i \in 1 .. n |-> Name(ps[i])] THEN "flattened-items"
    ELSE IF \E j \in 1 .. Len(o.xs) : o.calls[j] # Call(c.e, o.xs[j]) THEN "call-is-not-the-left-to-right-composition"
    ELSE IF \E j \in 1 .. Len(o.idx) : o.at[j] # Name(Index(ps, o.idx[j])) THEN "indexing"
    ELSE IF o.repr # "Transforms(" \o Join(ps, 1) \o ")" THEN "repr"
    ELSE IF o.again # o.calls THEN "second-call-differs"
    ELSE ""
VARIABLES l, bad
Init == l = 0 /\ bad = <<>>
Next == /\ l < Len(Obs)
        /\ l' = l + 1
        /\ LET o == Obs[l + 1]
               w == Why(Cases[o.cid], o) IN
           bad' = IF w = "" THEN bad ELSE Append(bad, <<o.cid, w>>)
Verdict == l = Len(Obs) => PrintT(<<"VERDICT", l, bad>>)
=============================================================================
