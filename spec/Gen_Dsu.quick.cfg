CONSTANTS N = 4 L = 3 LU = 4
INIT Init
NEXT Next
INVARIANT Emitted
