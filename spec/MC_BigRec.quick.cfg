CONSTANTS N = 3 MaxLen = 4
INIT Init
NEXT Next
INVARIANT Agree
