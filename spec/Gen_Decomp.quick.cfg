CONSTANTS MaxN = 5 MaxNLen = 4
INIT Init
NEXT Next
INVARIANT Emitted
