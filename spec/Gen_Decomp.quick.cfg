CONSTANTS MaxN = 5 MaxNLen = 4 MaxNHist = 4 MinLen = 0
INIT Init
NEXT Next
INVARIANT Emitted
