CONSTANTS
  M = 3
  GPool <- PoolA
INIT GInit
NEXT GNext
INVARIANT Emitted
