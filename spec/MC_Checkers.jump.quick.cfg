CONSTANT MaxN = 4
CONSTANT Alg = "jump"
SPECIFICATION Spec
INVARIANT JumpRight
INVARIANT CycRight
PROPERTY Terminates
