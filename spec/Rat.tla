-------------------------------- MODULE Rat --------------------------------
(***************************************************************************)
(* Exact rational arithmetic for the numeric specifications (C12-C14).     *)
(* A rational is <<num, den>> with den > 0 in lowest terms.  TLC integers  *)
(* are 32 bit and TLC raises on overflow (it never wraps), so addition     *)
(* uses the least common denominator and multiplication cross-cancels.     *)
(***************************************************************************)
EXTENDS Integers, Sequences, FiniteSets, TLC

AbsI(x) == IF x < 0 THEN -x ELSE x
RECURSIVE GCD(_, _)
GCD(a, b) == IF b = 0 THEN a ELSE GCD(b, a % b)
Norm(r) == LET s == IF r[2] < 0 THEN <<-r[1], -r[2]>> ELSE r
               g == GCD(AbsI(s[1]), s[2]) IN
           IF s[1] = 0 THEN <<0, 1>> ELSE <<s[1] \div g, s[2] \div g>>
R(n) == <<n, 1>>
Q(n, d) == Norm(<<n, d>>)
\* least-common-denominator addition and cross-cancelling multiplication keep the intermediate integers small (TLC integers are 32 bit)
RAdd(a, b) == LET g == GCD(a[2], b[2]) IN Norm(<<a[1] * (b[2] \div g) + b[1] * (a[2] \div g), (a[2] \div g) * b[2]>>)
RSub(a, b) == RAdd(a, <<-b[1], b[2]>>)
RMul(a, b) == IF a[1] = 0 \/ b[1] = 0 THEN <<0, 1>>
              ELSE LET g1 == GCD(AbsI(a[1]), b[2])  g2 == GCD(AbsI(b[1]), a[2]) IN Norm(<<(a[1] \div g1) * (b[1] \div g2), (a[2] \div g2) * (b[2] \div g1)>>)
RNeg(a) == <<-a[1], a[2]>>
Zero == R(0)
One == R(1)
RDiv(a, b) == RMul(a, IF b[1] < 0 THEN <<-b[2], -b[1]>> ELSE <<b[2], b[1]>>)
RLe(a, b) == RSub(a, b)[1] <= 0
RLt(a, b) == RSub(a, b)[1] < 0
RMin(a, b) == IF RLe(a, b) THEN a ELSE b
RCube(a) == RMul(a, RMul(a, a))
RSq(a) == RMul(a, a)
=============================================================================
