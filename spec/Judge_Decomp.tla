---------------------------- MODULE Judge_Decomp ----------------------------
(* Judge for C08: observed branches / paths / tips / furcations / branch tree against Decomp.tla *)
EXTENDS Decomp, Json, IOUtils
Cases == ndJsonDeserialize(IOEnv.CASES)
Obs   == ndJsonDeserialize(IOEnv.OBS)
SetOf(s) == { s[k] : k \in DOMAIN s }
NoDup(s) == Cardinality(SetOf(s)) = Len(s)

WhyDecomp(P, o) ==
    IF ~NoDup(o.branches) THEN "branch-listed-twice"
    ELSE IF ~EdgePartition(P, SetOf(o.branches)) THEN "edge-partition"
    ELSE IF ~BranchEnds(P, SetOf(o.branches)) THEN "branch-ends"
    ELSE IF SetOf(o.branches) # BranchSet(P) THEN "branches"
    ELSE IF ~NoDup(o.paths) \/ ~OnePathPerTip(P, SetOf(o.paths)) THEN "one-path-per-tip"
    ELSE IF ~NoDup(o.tips) \/ SetOf(o.tips) # Tips(P) THEN "tips"
    ELSE IF ~NoDup(o.furcs) \/ SetOf(o.furcs) # Furcs(P) THEN "furcations"
    ELSE ""

\* branch tree: o.nodes = original id of each branch-tree node, o.bpid = parents (branch-tree numbering),
\* o.attrok = attributes equal the original node's, o.remember[k] = branches (original ids) remembered at node k
WhyBT(P, o) ==
    IF ~NoDup(o.nodes) \/ SetOf(o.nodes) # Critical(P) THEN "branch-tree-nodes"
    ELSE IF o.attrok # 1 THEN "branch-tree-attributes"
    ELSE IF \E k \in DOMAIN o.nodes :
              (IF o.bpid[k] = -1 THEN -1 ELSE o.nodes[o.bpid[k] + 1]) # BTParent(P, o.nodes[k]) THEN "branch-tree-edges"
    ELSE IF ~WF(o.bpid) THEN "branch-tree-not-well-formed"
    ELSE IF \E k \in DOMAIN o.nodes : ~NoDup(o.remember[k]) \/ SetOf(o.remember[k]) # BTRemember(P, o.nodes[k]) THEN "remembered-branches"
    ELSE IF o.pointsok # 1 THEN "remembered-points"
    ELSE ""

Why(c, o) ==
    IF o.err # "" THEN "raised-" \o o.err
    ELSE CASE c.op = "decomp"       -> WhyDecomp(c.P, o)
           [] c.op = "branch_tree"  -> WhyBT(c.P, o)
           [] c.op = "node_branch"  -> IF o.branch = BranchOf(c.P, c.i) THEN "" ELSE "node-branch"
           [] c.op = "longest_path" -> IF o.path \notin Paths(c.P) THEN "longest-path-not-a-path"
                                       ELSE IF \E q \in Paths(c.P) : PathLen(c.el, q) > PathLen(c.el, o.path) THEN "longest-path-not-longest"
                                       ELSE IF o.pointsok # 1 THEN "longest-path-points"
                                       ELSE ""

VARIABLES l, bad
Init == l = 0 /\ bad = <<>>
Next == /\ l < Len(Obs)
        /\ l' = l + 1
        /\ LET o == Obs[l + 1]
               w == Why(Cases[o.cid], o) IN
           bad' = IF w = "" THEN bad ELSE Append(bad, <<o.cid, w>>)
Verdict == l = Len(Obs) => PrintT(<<"VERDICT", l, bad>>)
=============================================================================
