------------------------------ MODULE MC_SwcIO ------------------------------
(***************************************************************************)
(* Exhaustive check of the reader state machine of SwcIO.tla: every file   *)
(* of at most MaxLen lines over a line alphabet that has every kind of     *)
(* line (data rows with 0/1/2 extra fields, comments, the column header,   *)
(* blank, malformed, undecodable), every option set.                       *)
(*  - NoSilentTruncation, Loud : the C02 statement                         *)
(*  - MachineIsFunction        : the loop-as-function used by the judges   *)
(*                               is what the step-wise machine computes    *)
(*  - Terminates               : every read ends in returned / raised      *)
(* The configuration MC_SwcIO.swallow.cfg replaces ExitCtx by the named    *)
(* deviation ExitCtxSwallow and MUST violate Loud.                         *)
(***************************************************************************)
EXTENDS SwcIO, SequencesExt
CONSTANT MaxLen
D(id, pid, ex) == MkD(id, 3, <<2, 7, 10, 2>>, pid, ex, 1)
Alphabet == { D(1, -1, <<>>), D(2, 1, <<3>>), D(5, 1, <<3, 4>>),
              [k |-> "C", lead |-> 1, body |-> "a", hdr |-> 0], [k |-> "C", lead |-> 1, body |-> HeaderBody, hdr |-> 1],
              [k |-> "B", sp |-> 0], [k |-> "M", toks |-> <<"1", "1", "0", "0", "0", "1">>], [k |-> "U", lead |-> 1, body |-> "caf", hdr |-> 0] }
Files == UNION { [1 .. n -> Alphabet] : n \in 0 .. MaxLen }
Opts  == { Opt(nex, s, r, e) : nex \in {0, 1}, s \in BOOLEAN, r \in BOOLEAN, e \in {"utf-8", "latin-1"} }
Init == RInit(Files, Opts)
Done == st \in {"returned", "raised"}
Next == RNext \/ (Done /\ UNCHANGED rvars)
NextSwallow == RNextSwallow \/ (Done /\ UNCHANGED rvars)
Spec == Init /\ [][Next]_rvars /\ WF_rvars(RNext)
SpecSwallow == Init /\ [][NextSwallow]_rvars
Terminates == <>Done
=============================================================================
