CONSTANTS MaxN = 4 V = 2 Vals = {0, 1, 3, 4}
INIT Init
NEXT Next
INVARIANT Emitted
