---------------------------- MODULE Gen_ImageStack ----------------------------
(* C20: axis bookkeeping at specification level (ASSUMEs) and the io cases *)
EXTENDS ImageStack, SequencesExt, Json, IOUtils
CONSTANT MaxDim
Shapes == { <<x, y, z, c>> : x \in 1 .. MaxDim, y \in 1 .. MaxDim, z \in 1 .. MaxDim, c \in {1, 3} }
ASSUME \A s \in Shapes : RoundTripOK(s)
ASSUME \E s \in Shapes : ~RoundTripWrongTag(s)                       \* the deviation is visible on asymmetric shapes ...
ASSUME \A s \in Shapes : s[1] = s[2] /\ s[1] = 1 => RoundTripWrongTag(s)   \* ... and invisible on symmetric ones (why the suite's kind of fixture cannot see it)
DT == <<"u8", "u16", "f32", "f64">>
\* sd: dtype of the array handed to save; fd: dtype argument of save ("same": none); ld: dtype asked on load
IOCases == { [kind |-> "io", shape |-> <<s[1], s[2], s[3], c>>, sd |-> sd, fdarg |-> fd, ld |-> ld, fmt |-> fmt] :
             s \in Shapes, c \in {0, 1, 3}, sd \in {"u8", "u16", "f32"}, fd \in {"same", "u8", "u16", "f32"}, ld \in {"u8", "u16", "f32", "f64"}, fmt \in {"tif"} }
\* a float array written as a 16-bit file holds values above 255: reading that file as 8-bit is a plain narrowing cast, not one of the documented rescalings
AllSeq == SetToSeq({ cs \in IOCases : ~(cs.sd = "f32" /\ cs.fdarg = "u16" /\ cs.ld = "u8") })
VARIABLE done
Init == done = ndJsonSerialize(IOEnv.OUT, [j \in 1 .. Len(AllSeq) |-> [cid |-> j] @@ AllSeq[j]])
Next == FALSE /\ UNCHANGED done
Emitted == done => PrintT(<<"CASES", Len(AllSeq)>>)
=============================================================================
