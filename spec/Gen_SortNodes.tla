--------------------------- MODULE Gen_SortNodes ---------------------------
EXTENDS SortNodes, SequencesExt, Json, IOUtils
CONSTANTS MaxN, Pools, SlimTop
InjSeqs(S, n) == { s \in [1 .. n -> S] : Injective(s) }
\* cols[k] = <<type, x, y, z, r, extra>> : x is the row's identity tag; the extra column differs from every standard one
\* the extra column has missing entries (-1 stands for "no value": NaN in the table and tree forms)
ColsOf(n) == [k \in 1 .. n |-> <<1 + (k % 3), 100 + k, (7 * k) % 5, (3 * k) % 4, 1 + (k % 2), IF k % 3 = 0 THEN -1 ELSE 300 + 2 * k>>]
\* at the largest size only the rotations of the pool in ascending and in descending order (every arrangement would take TLC the better part of an hour to write out)
Asc(S) == SetToSortSeq(S, LAMBDA a, b : a < b)
RotSeqs(S, n) == IF Cardinality(S) # n THEN {} ELSE
                 LET a == Asc(S) IN { [k \in 1 .. n |-> a[((k - 1 + r) % n) + 1]] : r \in 0 .. n - 1 } \cup { [k \in 1 .. n |-> a[((2 * n - k + r) % n) + 1]] : r \in 0 .. n - 1 }
IdSeqs(S, n) == IF SlimTop /\ n = MaxN THEN RotSeqs(S, n) ELSE InjSeqs(S, n)
Tables == UNION { UNION { { [ids |-> ids, Q |-> Q, pids |-> PidsOf(ids, Q), cols |-> ColsOf(n)] : ids \in IdSeqs(S, n), Q \in TableTopos(n) }
                          : S \in { T \in Pools : Cardinality(T) >= n } } : n \in 1 .. MaxN }
\* table / file forms: any ids, root anywhere.  tree form: ids = positions (any numbering)
IsPositions(t) == t.ids = [k \in 1 .. Len(t.ids) |-> k - 1]
CTable == { [op |-> "sort_table"] @@ t : t \in Tables }
CRead  == { [op |-> "read_sorted"] @@ t : t \in Tables }
CTree  == { [op |-> "sort_tree"] @@ t : t \in { u \in Tables : IsPositions(u) } }
AllSeq   == SetToSeq(CTable \cup CRead \cup CTree)
Numbered == [k \in 1 .. Len(AllSeq) |-> [cid |-> k] @@ AllSeq[k]]
VARIABLE done
Init == done = ndJsonSerialize(IOEnv.OUT, Numbered)
Next == FALSE /\ UNCHANGED done
Emitted == done => PrintT(<<"CASES", Len(AllSeq)>>)
=============================================================================
