--------------------------- MODULE Judge_ImageStack ---------------------------
(* Judge for C20 *)
EXTENDS ImageStack, Json, IOUtils
Cases == ndJsonDeserialize(IOEnv.CASES)
Obs   == ndJsonDeserialize(IOEnv.OBS)
AbsI(x) == IF x < 0 THEN -x ELSE x
\* io: c.shape = <<X,Y,Z,C>> of the saved array (C = 0: a 3-d array was saved), c.sd = dtype of the array, c.fdarg = dtype argument of save_tiff
\* ("same": none), c.ld = dtype asked on load.  The value at an index with code k is k (unsigned array) or (k + 1/2) / 255 (float array).
\* o.vals[x][y][z][c]: integers for unsigned loads, units of 10^-4 for float loads.
MaxOf(dt) == IF dt = "u8" THEN 255 ELSE 65535
IsU(dt) == dt \in {"u8", "u16"}
Shape4(c) == <<c.shape[1], c.shape[2], c.shape[3], IF c.shape[4] = 0 THEN 1 ELSE c.shape[4]>>
FileDt(c) == IF c.fdarg = "same" THEN c.sd ELSE c.fdarg
\* extreme-value cases ("hi" = 1): the array holds MAX - k (unsigned: saturated voxels) or 1, 507/510, 505/510, ... (float: the top of the unit interval)
HiOf(c) == IF "hi" \in DOMAIN c THEN c.hi ELSE 0
Val(k, sd, hi) == IF IsU(sd) THEN (IF hi = 1 THEN <<MaxOf(sd) - k, 1>> ELSE <<k, 1>>)
                  ELSE IF hi = 1 THEN (IF k = 0 THEN <<1, 1>> ELSE <<509 - 2 * k, 510>>)
                  ELSE <<2 * k + 1, 510>>
\* value in the file, as a rational <<num, den>>
FileVal(v, sd, fd) == IF IsU(sd) /\ IsU(fd) THEN v
                      ELSE IF IsU(sd) THEN <<v[1], v[2] * MaxOf(sd)>>                               \* unsigned -> float: v / MAX
                      ELSE IF IsU(fd) THEN <<(v[1] * MaxOf(fd)) \div v[2], 1>>                      \* float -> unsigned: floor(v * MAX)
                      ELSE v
LoadVal(f, fd, ld) == IF IsU(fd) = IsU(ld) THEN f
                      ELSE IF IsU(fd) THEN <<f[1], f[2] * MaxOf(fd)>>                              \* v / MAX
                      ELSE IF f[2] = MaxOf(ld) THEN <<f[1], 1>>                                     \* (kept within 32 bits)
                      ELSE <<(f[1] * MaxOf(ld)) \div f[2], 1>>                                      \* floor(v * MAX)
\* k / MAX stored in floating point and multiplied back may land just below the integer: one unit of slack on that path only
Slack(sd, fd, ld) == IF IsU(sd) /\ ~IsU(fd) /\ IsU(ld) THEN 1 ELSE 0
\* a half-precision file or load carries 11 significant bits: values in [0, 1] are off by at most 2^-11 per conversion
Half(fd, ld) == fd = "f16" \/ ld = "f16"
WhyIO(c, o) ==
    LET sh == Shape4(c)  fd == FileDt(c)
        ok(k, v) == LET e == LoadVal(FileVal(Val(k, c.sd, HiOf(c)), c.sd, fd), fd, c.ld) IN
                    IF IsU(c.ld) THEN AbsI(v - e[1] \div e[2]) <= Slack(c.sd, fd, c.ld) + (IF Half(fd, c.ld) THEN MaxOf(c.ld) \div 1024 + 1 ELSE 0)
                    ELSE AbsI(v * e[2] - e[1] * 10000) <= (IF Half(fd, c.ld) THEN 12 ELSE 2) * e[2] IN
    IF o.shape # sh THEN "io-shape"
    ELSE IF \E idx \in Indices(sh) : ~ok(Code(idx, sh), o.vals[idx[1] + 1][idx[2] + 1][idx[3] + 1][idx[4] + 1]) THEN "io-values-" \o c.sd \o "-" \o fd \o "-" \o c.ld
    ELSE ""
\* the box that is rendered: the tree's own bounding box, or the block asked for with ranges = (lo, hi) (c.box, lattice coordinates)
BoxLo(c, ax) == IF "box" \in DOMAIN c THEN c.box[1][ax] ELSE Lo(c.pos, c.rad, ax)
BoxHi(c, ax) == IF "box" \in DOMAIN c THEN c.box[2][ax] ELSE Hi(c.pos, c.rad, ax)
WhyRaster(c, o) ==
    LET S == c.S
        n(ax) == NVox(BoxLo(c, ax), BoxHi(c, ax), c.resS[ax], S)
        ctr(i, j, k) == <<Centre(BoxLo(c, 1), i, c.resS[1], S), Centre(BoxLo(c, 2), j, c.resS[2], S), Centre(BoxLo(c, 3), k, c.resS[3], S)>> IN
    IF o.shape # <<n(3), n(1), n(2)>> THEN "raster-shape"
    ELSE IF \E k \in 0 .. n(3) - 1 : \E i \in 0 .. n(1) - 1 : \E j \in 0 .. n(2) - 1 :
              LET v == o.vox[k + 1][i + 1][j + 1] IN
              v \notin {0, 255} \/ (MustLit(ctr(i, j, k), c.P, c.pos, c.rad, S) /\ v # 255) \/ (MustDark(ctr(i, j, k), c.P, c.pos, c.rad, S) /\ v # 0)
         THEN "raster-voxels"
    ELSE IF o.saved_ok # 1 THEN "raster-save-load-differs"
    ELSE ""
\* saving / rasterising reads its argument: the caller's array (tree) is the same afterwards
Why(c, o) == IF o.err # "" THEN "raised-" \o o.err
             ELSE LET w == IF c.kind = "io" THEN WhyIO(c, o) ELSE WhyRaster(c, o) IN
                  IF w # "" THEN w ELSE IF o.pure # 1 THEN c.kind \o "-argument-modified" ELSE ""
VARIABLES l, bad
Init == l = 0 /\ bad = <<>>
Next == /\ l < Len(Obs)
        /\ l' = l + 1
        /\ LET o == Obs[l + 1]
               w == Why(Cases[o.cid], o) IN
           bad' = IF w = "" THEN bad ELSE Append(bad, <<o.cid, w>>)
Verdict == l = Len(Obs) => PrintT(<<"VERDICT", l, bad>>)
=============================================================================
