CONSTANTS P0 <- PY  MaxSteps = 4 Emit = FALSE MaxTrees = 2 MaxViews = 3 Focus = FALSE
INIT Init
NEXT Next
INVARIANT WindowFollows
PROPERTY DetachedFrozen
PROPERTY WriteLocal
