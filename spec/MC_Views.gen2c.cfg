CONSTANTS P0 <- PC  MaxSteps = 2 Emit = TRUE MaxTrees = 2 MaxViews = 3 Focus = FALSE
INIT Init
NEXT Next
INVARIANT EmitHist
