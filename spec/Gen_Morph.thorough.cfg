CONSTANTS MaxN = 5 NV = 5 BinN = TRUE
INIT Init
NEXT Next
INVARIANT Emitted
