CONSTANT MaxN = 5
CONSTANT Pools = {{0,1,2,3,4},{1,2,3,4},{3,7,11,5,2},{3,7,11,5}}
CONSTANT SlimTop = TRUE
INIT Init
NEXT Next
INVARIANT Emitted
