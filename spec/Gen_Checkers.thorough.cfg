CONSTANTS MaxN = 5 FMaxN = 5
INIT Init
NEXT Next
INVARIANT Emitted
