CONSTANTS MaxN = 5 FMaxN = 5 RingN = {5, 6, 7, 8}
INIT Init
NEXT Next
INVARIANT Emitted
