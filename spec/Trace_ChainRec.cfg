INIT Init
NEXT Next
INVARIANT Final
