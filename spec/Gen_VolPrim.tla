----------------------------- MODULE Gen_VolPrim -----------------------------
(* C13: Code = Truth on the whole integer grid (TLC, exact), every branch of the case analysis reached, and the cases for the executor *)
EXTENDS VolPrim, SequencesExt, Json, IOUtils
CONSTANT G
Grid == 1 .. G
Cases3(k) == { [k |-> k, a |-> a, b |-> b, c |-> c] : a \in Grid, b \in Grid, c \in Grid }
All == { [k |-> "sphere", a |-> a, b |-> 0, c |-> 0] : a \in Grid }
       \cup { x \in { [k |-> "cap", a |-> a, b |-> b, c |-> 0] : a \in Grid, b \in 0 .. 2 * G } : x.b <= 2 * x.a }
       \cup Cases3("frustum") \cup { [k |-> kk, a |-> a, b |-> b, c |-> c] : kk \in {"lens", "union2"}, a \in Grid, b \in Grid, c \in 0 .. 2 * G + 1 }
       \cup Cases3("sphfru") \cup Cases3("sphfruU")
ASSUME \A c \in All : Code(c) = Truth(c)
ASSUME \A reg \in {"wide-high", "wide-low", "narrow-inside", "narrow-high", "narrow-low"} : \E c \in Cases3("sphfru") : Region(R(c.a), R(c.b), R(c.c)) = reg
\* the boundaries between regions are on the grid too: h = r1, r2 = r1, the cone leaving the ball exactly at the far end, tangent and nested balls
ASSUME \E c \in Cases3("sphfru") : c.a > c.b /\ RDiv(RMul(R(-2), RMul(R(c.a), R(c.b - c.a))), RAdd(RSq(R(c.c)), RSq(R(c.b - c.a)))) = One
AllSeq == SetToSeq(All)
Numbered == [j \in 1 .. Len(AllSeq) |-> [cid |-> j, exp |-> Truth(AllSeq[j]), place |-> j % 7, unit |-> (j \div 7) % 3] @@ AllSeq[j]]
VARIABLE done
Init == done = ndJsonSerialize(IOEnv.OUT, Numbered)
Next == FALSE /\ UNCHANGED done
Emitted == done => PrintT(<<"CASES", Len(AllSeq)>>)
=============================================================================
