CONSTANTS P0 <- PY  MaxSteps = 5 Emit = TRUE MaxTrees = 2 MaxViews = 3 Focus = TRUE
INIT Init
NEXT Next
INVARIANT EmitHist
