---------------------------- MODULE Judge_Folder ----------------------------
(* Judge for X02: what the real image-stack folders reported (values in units of 10^-6) against Folder.tla *)
EXTENDS Folder, Json, IOUtils
Cases == ndJsonDeserialize(IOEnv.CASES)
Obs   == ndJsonDeserialize(IOEnv.OBS)
CloseQ(obs, r) == AbsI(obs * r[2] - r[1] * 1000000) <= 20 * r[2]          \* float32 accumulation
Why(c, o) ==
    LET n == Len(c.imgs) IN
    IF o.err # "" THEN "raised-" \o o.err
    ELSE IF o.opened_at_construction # 0 THEN "files-read-at-construction"
    ELSE IF o.len # n THEN "length"
    \* item i is the content of file i (every index from -n to n-1), read when asked for and only that file
    ELSE IF \E k \in 1 .. Len(o.items) : o.items[k].vals # c.imgs[o.items[k].file] THEN "item-is-not-the-files-content"
    ELSE IF \E k \in 1 .. Len(o.items) : o.items[k].opened # <<o.items[k].file>> THEN "item-read-other-files"
    ELSE IF o.index_error # 1 THEN "index-past-the-end-accepted"
    ELSE IF \E k \in 1 .. Len(o.labeled) : o.labeled[k] # <<c.imgs[k], 10 + k>> THEN "label-pairing"
    ELSE IF \E k \in 1 .. Len(o.relpaths) : o.relpaths[k] # <<c.imgs[k], k>> THEN "relative-path-pairing"
    ELSE IF o.count # n THEN "stat-count"
    ELSE IF o.mn # c.mn * 1000000 \/ o.mx # c.mx * 1000000 THEN "stat-min-max"
    ELSE IF ~CloseQ(o.mean, StatMean(c.imgs)) THEN "stat-mean"
    ELSE IF ~CloseQ(o.var, StatVar(c.imgs)) THEN "stat-variance"
    ELSE IF ~CloseQ(o.mean_t, RMul(R(2), StatMean(c.imgs))) THEN "stat-of-transformed-images"
    ELSE ""
VARIABLES l, bad
Init == l = 0 /\ bad = <<>>
Next == /\ l < Len(Obs)
        /\ l' = l + 1
        /\ LET o == Obs[l + 1]
               w == Why(Cases[o.cid], o) IN
           bad' = IF w = "" THEN bad ELSE Append(bad, <<o.cid, w>>)
Verdict == l = Len(Obs) => PrintT(<<"VERDICT", l, bad>>)
=============================================================================
