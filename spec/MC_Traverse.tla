----------------------------- MODULE MC_Traverse -----------------------------
(***************************************************************************)
(* Algorithm layer for C04: _traverse_dfs as the code does it.             *)
(*   children_map from the table; stack of (node, is_enter) frames;        *)
(*   params[child] = value returned by the parent's enter call;            *)
(*   vals[node] = value returned by the node's leave call; on an enter     *)
(*   frame push (node, leave) then every child's enter frame; on a leave   *)
(*   frame pop the children's vals.                                        *)
(* Every step is checked against StructRec (the event it emits must be     *)
(* allowed there), for every topology, start node and callback mode;       *)
(* termination is checked under weak fairness.                             *)
(***************************************************************************)
EXTENDS StructRec
CONSTANT MaxN
VARIABLES P, start, mode, stack, params, vals, entered, left, vout, lout, ret, pc, why

vars == <<P, start, mode, stack, params, vals, entered, left, vout, lout, ret, pc, why>>
\* callback results as uninterpreted terms
NoneTerm == <<"none">>
EnterTerm(i, pin) == <<"E", i, pin>>
LeaveTerm(i, cs)  == <<"L", i, cs>>

Init == /\ P \in UNION { Topos(n) : n \in 1 .. MaxN }
        /\ start \in Nodes(P)
        /\ mode \in {"enter", "leave", "both"}
        /\ stack = << <<start, TRUE>> >>
        /\ params = [i \in {start} |-> NoVal]
        /\ vals = <<>> /\ entered = {} /\ left = {} /\ vout = <<>> /\ lout = <<>> /\ ret = NoVal /\ pc = "loop" /\ why = ""

Top == stack[Len(stack)]
Pop == SubSeq(stack, 1, Len(stack) - 1)

EnterFrame ==
    /\ pc = "loop" /\ stack # <<>> /\ Top[2]
    /\ LET i   == Top[1]
           pre == params[i]
           cur == IF HasEnter(mode) THEN EnterTerm(i, pre) ELSE NoVal
           ks  == SetToSeqKids(P, i) IN
       /\ why' = IF HasEnter(mode) THEN EnterWhy(P, start, mode, entered, left, vout, i, pre) ELSE ""
       /\ entered' = IF HasEnter(mode) THEN entered \cup {i} ELSE entered
       /\ vout' = IF HasEnter(mode) THEN (i :> cur) @@ vout ELSE vout
       /\ stack' = Pop \o << <<i, FALSE>> >> \o [k \in 1 .. Len(ks) |-> <<ks[k], TRUE>>]
       /\ params' = [j \in (DOMAIN params \ {i}) \cup Kids(P, i) |-> IF j \in Kids(P, i) THEN cur ELSE params[j]]
    /\ UNCHANGED <<P, start, mode, vals, left, lout, ret, pc>>

LeaveFrame ==
    /\ pc = "loop" /\ stack # <<>> /\ ~Top[2]
    /\ LET i  == Top[1]
           ks == SetToSeqKids(P, i)
           cs == [k \in 1 .. Len(ks) |-> vals[ks[k]]]
           v  == IF HasLeave(mode) THEN LeaveTerm(i, cs) ELSE NoVal IN
       /\ why' = IF HasLeave(mode) THEN LeaveWhy(P, start, mode, entered, left, lout, i, cs) ELSE ""
       /\ left' = IF HasLeave(mode) THEN left \cup {i} ELSE left
       /\ lout' = IF HasLeave(mode) THEN (i :> v) @@ lout ELSE lout
       /\ vals' = [j \in (DOMAIN vals \ Kids(P, i)) \cup {i} |-> IF j = i THEN v ELSE vals[j]]
       /\ stack' = Pop
    /\ UNCHANGED <<P, start, mode, params, entered, vout, ret, pc>>

Return == /\ pc = "loop" /\ stack = <<>>
          /\ ret' = vals[start]
          /\ why' = ReturnWhy(P, start, mode, entered, left, lout, vals[start])
          /\ pc' = "done"
          /\ UNCHANGED <<P, start, mode, stack, params, vals, entered, left, vout, lout>>

Next == EnterFrame \/ LeaveFrame \/ Return \/ (pc = "done" /\ UNCHANGED vars)
Spec == Init /\ [][Next]_vars /\ WF_vars(EnterFrame \/ LeaveFrame \/ Return)

EveryEventAllowed == why = ""                  \* the algorithm never emits an event StructRec forbids
StackBounded      == Len(stack) <= 2 * Len(P)  \* explicit stack, no recursion: bounded by the tree, not by its depth squared
RECURSIVE Rec(_)
Rec(i) == LeaveTerm(i, [k \in 1 .. Cardinality(Kids(P, i)) |-> Rec(SetToSeqKids(P, i)[k])])
IsRec  == (pc = "done" /\ mode = "leave") => ret = Rec(start)       \* the result is the structural recursion
Terminates == <>(pc = "done")
=============================================================================
