CONSTANT MaxN = 4
CONSTANT Alg = "cyc"
SPECIFICATION Spec
INVARIANT JumpRight
INVARIANT CycRight
PROPERTY Terminates
