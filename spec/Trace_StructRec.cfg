CONSTANT NoVal <- MinusOne
INIT Init
NEXT Next
INVARIANT Verdict
