CONSTANT MaxN = 7
CONSTANT CloseStem = TRUE
INIT Init
NEXT Next
INVARIANT AlgIsSpec
INVARIANT SpecPartition
INVARIANT SpecEnds
INVARIANT SpecPaths
INVARIANT BTNodesReach
INVARIANT CountIdentity
