CONSTANTS MaxN = 4 FMaxN = 4 RingN = {5, 6, 7}
INIT Init
NEXT Next
INVARIANT Emitted
