CONSTANTS MaxN = 4 FMaxN = 4
INIT Init
NEXT Next
INVARIANT Emitted
