--------------------------- MODULE MC_SubtreeAlg ---------------------------
(***************************************************************************)
(* Algorithm layer for C06, transcribed from the code:                     *)
(*   to_subtree  = mark removals; propagate_removal (an enter-only         *)
(*   traversal with an explicit stack of (node, is_enter) frames that      *)
(*   threads "my parent was removed" downwards); to_sub_topology (drop the *)
(*   marked rows, renumber the survivors in id order, remap parents).      *)
(* TLC checks, for every well-formed topology up to MaxN and every removal *)
(* set, that the algorithm terminates with exactly the declarative         *)
(* survivors of Subtree.tla, correctly renumbered.                         *)
(***************************************************************************)
EXTENDS Subtree, SequencesExt
CONSTANT MaxN
VARIABLES P, R, mark, stack, param, pc, map, rpid

vars == <<P, R, mark, stack, param, pc, map, rpid>>
KidSeq(i) == SetToSortSeq(Kids(P, i), <)          \* children_map keeps table (= id) order

Init == /\ P \in UNION { Topos(n) : n \in 1 .. MaxN }
        /\ R \in SUBSET (1 .. Len(P) - 1)
        /\ mark = [i \in Nodes(P) |-> i \in R]
        /\ stack = << <<0, TRUE>> >>
        /\ param = [i \in {0} |-> FALSE]             \* the root receives None (falsy)
        /\ pc = "loop" /\ map = <<>> /\ rpid = <<>>

Enter == /\ pc = "loop" /\ stack # <<>> /\ stack[Len(stack)][2]
         /\ LET i   == stack[Len(stack)][1]
                rem == param[i] \/ mark[i]
                ks  == KidSeq(i) IN
            /\ mark'  = [mark EXCEPT ![i] = rem]
            /\ stack' = SubSeq(stack, 1, Len(stack) - 1) \o << <<i, FALSE>> >> \o [k \in 1 .. Len(ks) |-> <<ks[k], TRUE>>]
            /\ param' = [j \in (DOMAIN param \ {i}) \cup Kids(P, i) |-> IF j \in Kids(P, i) THEN rem ELSE param[j]]
         /\ UNCHANGED <<P, R, pc, map, rpid>>

Leave == /\ pc = "loop" /\ stack # <<>> /\ ~stack[Len(stack)][2]
         /\ stack' = SubSeq(stack, 1, Len(stack) - 1)
         /\ UNCHANGED <<P, R, mark, param, pc, map, rpid>>

\* to_sub_topology
Renumber == /\ pc = "loop" /\ stack = <<>>
            /\ LET kept == SetToSortSeq({ i \in Nodes(P) : ~mark[i] }, <) IN
               /\ map'  = kept
               /\ rpid' = [k \in 1 .. Len(kept) |-> IF Par(P, kept[k]) = -1 THEN -1 ELSE PosOf(kept, Par(P, kept[k]))]
            /\ pc' = "done"
            /\ UNCHANGED <<P, R, mark, stack, param>>

Next == Enter \/ Leave \/ Renumber \/ (pc = "done" /\ UNCHANGED vars)
Spec == Init /\ [][Next]_vars /\ WF_vars(Enter \/ Leave \/ Renumber)

IdAttr == [k \in 1 .. Len(P) |-> k - 1]
Refines == pc = "done" => ResultWhy(P, IdAttr, KeepRemove(P, R), map, rpid, [k \in DOMAIN map |-> map[k]]) = ""
OnlyMarkDown == \A i \in Nodes(P) : mark[i] => \E a \in Anc(P, i) : a \in R    \* never marks a node that is not below a removal
Terminates == <>(pc = "done")
=============================================================================
