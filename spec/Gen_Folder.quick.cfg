CONSTANTS MaxN = 3 V = 2 Vals = {0, 1, 3}
INIT Init
NEXT Next
INVARIANT Emitted
