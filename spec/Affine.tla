------------------------------- MODULE Affine -------------------------------
(***************************************************************************)
(* C12 — affine maps in exact rational arithmetic.                         *)
(* A rational is <<num, den>> (den > 0, lowest terms); a point is a triple *)
(* of rationals; a map is a 4x4 homogeneous matrix of rationals.  Angles   *)
(* are given by their cosine and sine <<c, s>> with c^2 + s^2 = 1 rational *)
(* (0, 90, 180, 270 degrees, and the 3-4-5 / 5-12-13 angles, either sign); *)
(* rotation axes are rational unit vectors.                                *)
(***************************************************************************)
EXTENDS Rat

Row(a, b, c, d) == <<a, b, c, d>>
Ident == <<Row(One, Zero, Zero, Zero), Row(Zero, One, Zero, Zero), Row(Zero, Zero, One, Zero), Row(Zero, Zero, Zero, One)>>
Sum4(f) == RAdd(RAdd(f[1], f[2]), RAdd(f[3], f[4]))
MMul(A, B) == [i \in 1 .. 4 |-> [j \in 1 .. 4 |-> Sum4([k \in 1 .. 4 |-> RMul(A[i][k], B[k][j])])]]
\* image of the point p (triple of rationals) under M (affine: last row 0 0 0 1)
Apply(M, p) == LET h == <<p[1], p[2], p[3], One>> IN [i \in 1 .. 3 |-> Sum4([k \in 1 .. 4 |-> RMul(M[i][k], h[k])])]
PtI(v) == <<R(v[1]), R(v[2]), R(v[3])>>          \* integer triple as a point

\* ---- the builders (what utils.translate3d / scale3d / rotate3d_x/y/z / rotate3d are specified to return) ----
T(v)  == <<Row(One, Zero, Zero, v[1]), Row(Zero, One, Zero, v[2]), Row(Zero, Zero, One, v[3]), Row(Zero, Zero, Zero, One)>>
S(sv) == <<Row(sv[1], Zero, Zero, Zero), Row(Zero, sv[2], Zero, Zero), Row(Zero, Zero, sv[3], Zero), Row(Zero, Zero, Zero, One)>>
Rx(a) == <<Row(One, Zero, Zero, Zero), Row(Zero, a[1], RNeg(a[2]), Zero), Row(Zero, a[2], a[1], Zero), Row(Zero, Zero, Zero, One)>>
Ry(a) == <<Row(a[1], Zero, a[2], Zero), Row(Zero, One, Zero, Zero), Row(RNeg(a[2]), Zero, a[1], Zero), Row(Zero, Zero, Zero, One)>>
Rz(a) == <<Row(a[1], RNeg(a[2]), Zero, Zero), Row(a[2], a[1], Zero, Zero), Row(Zero, Zero, One, Zero), Row(Zero, Zero, Zero, One)>>
\* Rodrigues: cos*I + (1-cos)*n n^T + sin*[n]x   (right-handed rotation by the angle about the unit axis n)
Rod(n, a) == LET c == a[1]  s == a[2]  k == RSub(One, c)
                 N == << <<Zero, RNeg(n[3]), n[2]>>, <<n[3], Zero, RNeg(n[1])>>, <<RNeg(n[2]), n[1], Zero>> >>
                 e(i, j) == RAdd(RAdd(IF i = j THEN c ELSE Zero, RMul(k, RMul(n[i], n[j]))), RMul(s, N[i][j])) IN
             <<Row(e(1, 1), e(1, 2), e(1, 3), Zero), Row(e(2, 1), e(2, 2), e(2, 3), Zero), Row(e(3, 1), e(3, 2), e(3, 3), Zero), Row(Zero, Zero, Zero, One)>>
NegP(p) == <<RNeg(p[1]), RNeg(p[2]), RNeg(p[3])>>
\* the map M carried out about the centre ctr:  T(ctr) M T(-ctr)
About(M, ctr) == MMul(T(ctr), MMul(M, T(NegP(ctr))))

\* ---- an operation as a value: [op, ...] -> the matrix it stands for ----
Mat(o) == CASE o.op = "translate" -> T(o.v)
            [] o.op = "scale"     -> S(o.v)
            [] o.op = "rotx"      -> Rx(o.a)
            [] o.op = "roty"      -> Ry(o.a)
            [] o.op = "rotz"      -> Rz(o.a)
            [] o.op = "rotate"    -> Rod(o.n, o.a)
            [] o.op = "affine"    -> MMul(T(o.v), MMul(Rz(o.a), S(o.w)))
\* effective map on a tree whose root sits at rootp
Eff(o, rootp) == IF o.op = "translate_origin" THEN T(NegP(rootp))
                 ELSE IF o.centre = "root" THEN About(Mat(o), rootp) ELSE Mat(o)
Inv(o) == CASE o.op = "translate" -> [o EXCEPT !.v = NegP(o.v)]
            [] o.op = "scale"     -> [o EXCEPT !.v = <<<<o.v[1][2], o.v[1][1]>>, <<o.v[2][2], o.v[2][1]>>, <<o.v[3][2], o.v[3][1]>>>>]     \* positive factors only
            [] OTHER              -> [o EXCEPT !.a = <<o.a[1], RNeg(o.a[2])>>]                                   \* rotations: the opposite angle
D2(p, q) == RAdd(RAdd(RMul(RSub(p[1], q[1]), RSub(p[1], q[1])), RMul(RSub(p[2], q[2]), RSub(p[2], q[2]))), RMul(RSub(p[3], q[3]), RSub(p[3], q[3])))

Angles == { <<One, Zero>>, <<Zero, One>>, <<R(-1), Zero>>, <<Zero, R(-1)>>, <<Q(3, 5), Q(4, 5)>>, <<Q(3, 5), Q(-4, 5)>>, <<Q(-4, 5), Q(3, 5)>>, <<Q(5, 13), Q(12, 13)>>, <<Q(-12, 13), Q(-5, 13)>> }
\* angles of about 0.0044 rad next to 0, pi/2 and pi (from the Pythagorean triple 900, 202499, 202501): a turn that small must still be made
SmallAngles == { <<Q(202499, 202501), Q(900, 202501)>>, <<Q(202499, 202501), Q(-900, 202501)>>, <<Q(900, 202501), Q(202499, 202501)>>, <<Q(-202499, 202501), Q(900, 202501)>> }
Axes   == { <<One, Zero, Zero>>, <<Zero, One, Zero>>, <<Zero, Zero, One>>, <<Q(2, 3), Q(2, 3), Q(1, 3)>>, <<Q(2, 7), Q(3, 7), Q(6, 7)>>, <<Zero, Q(3, 5), Q(-4, 5)>>, <<Q(-1, 3), Q(2, 3), Q(-2, 3)>>,
            <<R(-1), Zero, Zero>>, <<Zero, R(-1), Zero>>, <<Zero, Zero, R(-1)>>, <<Q(3, 5), Zero, Q(4, 5)>> }     \* negative coordinate axes, an axis in a coordinate plane
=============================================================================
