CONSTANT MaxN = 5
CONSTANT Pools = {{0,1,2,3,4},{1,2,3,4,5},{2,5,7,11,3}}
SPECIFICATION Spec
INVARIANT Refines
PROPERTY Terminates
