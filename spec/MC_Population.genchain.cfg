CONSTANTS MaxSteps = 5 MaxObjs = 8 Emit = TRUE Wide = FALSE Only = {"from_swc", "zipof", "topop", "index"}
INIT Init
NEXT Next
INVARIANT EmitHist
