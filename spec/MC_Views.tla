------------------------------ MODULE MC_Views ------------------------------
(* Exhaustive exploration of every history of view / write / copy / detach    *)
(* operations up to MaxSteps on the constant tree P0.  With Emit = TRUE the    *)
(* same run is the generator: every maximal history is printed for the         *)
(* executor.                                                                   *)
EXTENDS Views, Json
CONSTANTS P0, MaxSteps, Emit, MaxTrees, MaxViews, Focus
VARIABLES s, hist
PY == <<-1, 0, 1, 1>>
PZ == <<-1, 2, 0, 2, 1>>
PC == <<-1, 0, 1>>
AllActs == {"node", "index_error", "slice", "path", "branch", "seg", "write", "copy", "detach"}
Keys == IF Focus THEN {-1, 1} ELSE {0, -1, 2, -Len(P0), Len(P0), -Len(P0) - 1}
Vals == IF Focus THEN {77} ELSE {77, 5}
Acts == IF Focus THEN {"node", "path", "branch", "write", "copy", "detach"} ELSE AllActs
Init == s = S0(P0) /\ hist = <<>>
Ok(act) == /\ (act.a = "copy" => Len(s.data) < MaxTrees)
           /\ (act.a \in {"node", "slice", "path", "branch", "seg", "detach"} => Len(s.views) < MaxViews)
Next == /\ Len(hist) < MaxSteps
        /\ \E act \in Enabled(P0, s, Keys, Vals, Acts) : Ok(act) /\ s' = Do(P0, s, act) /\ hist' = Append(hist, act)
\* --- invariants / action properties of the design ---
DetachedFrozen == [][ \A v \in DOMAIN s.views : s.views[v].kind = "det" => Read(s', s'.views[v]) = Read(s, s.views[v]) ]_<<s, hist>>
WriteLocal     == [][ \A t \in DOMAIN s.data : s'.data[t] # s.data[t] =>
                        LET act == hist'[Len(hist')] IN act.a = "write" /\ s.views[act.v].owner = t ]_<<s, hist>>
WindowFollows  == \A v \in DOMAIN s.views : s.views[v].kind # "det" =>
                     Read(s, s.views[v]).x = [k \in DOMAIN s.views[v].idx |-> s.data[s.views[v].owner].x[s.views[v].idx[k] + 1]]
EmitHist == (Emit /\ Len(hist) = MaxSteps) => PrintT(<<"H", hist>>)
=============================================================================
