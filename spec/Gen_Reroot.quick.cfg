CONSTANTS MaxN = 5 MaxN1 = 3 MaxN2 = 4 MaxNS = 4
INIT Init
NEXT Next
INVARIANT Emitted
