CONSTANTS MaxN = 6 MaxNLen = 5
INIT Init
NEXT Next
INVARIANT Emitted
