CONSTANTS MaxN = 6 MaxNLen = 5 MaxNHist = 5 MinLen = 0
INIT Init
NEXT Next
INVARIANT Emitted
