----------------------------- MODULE Trace_SwcIO -----------------------------
(***************************************************************************)
(* Trace validation of the reader loop (C02).  The executor hands the real *)
(* reader a text stream that logs every line it gives out, the end of the  *)
(* stream, and its close(); the outcome of the call is the last event:     *)
(*   <<"next", k>>  line k was handed to the loop                          *)
(*   <<"eof">>      the loop asked for a line after the last one           *)
(*   <<"close">>    the context manager closed the stream                  *)
(*   <<"returned", nrows>> / <<"raised">>                                  *)
(* The trace is replayed against the reader state machine of SwcIO.tla,    *)
(* one event at a time; between two events the machine takes the steps it  *)
(* must (they are not observable):                                         *)
(*   next k (k > 1)  <=  Read{Data,Comment,Blank} of line k-1              *)
(*   eof             <=  Read* of the last line                            *)
(*   close           <=  (EndLoop | RaiseInvalid) ; ExitCtx                *)
(*   outcome         <=  FinishStep                                        *)
(* A text stream is already decoded, so RaiseDecode cannot occur here.     *)
(* State of the replay: pos (next line to process), st, rows read so far.  *)
(***************************************************************************)
EXTENDS SwcIO, Json, IOUtils
Cases == ndJsonDeserialize(IOEnv.CASES)
Obs   == ndJsonDeserialize(IOEnv.OBS)
OptOfCase(c) == Opt(c.o.nex, c.o.mode = 0, c.o.mode = 1, "latin-1")
VARIABLES ci, k, m, bad
\* m = [pos, st, nrows]: the machine state that matters for the replay (the full row contents are judged by Judge_SwcIO)
Init == ci = 1 /\ k = 0 /\ m = <<>> /\ bad = <<>> /\ RInit({<<>>}, {Opt(0, FALSE, FALSE, "utf-8")})
Fail(o, w) == bad' = Append(bad, <<o.cid, w>>) /\ ci' = ci + 1 /\ k' = 0 /\ m' = <<>>
Readable(f, op, j) == j >= 1 /\ j <= Len(f) /\ ~Malformed(f[j], op)                       \* one of ReadData / ReadComment / ReadBlank is enabled on line j
IsD(f, op, j) == f[j].k = "D"
Step == /\ ci <= Len(Obs)
        /\ LET o == Obs[ci]
               c == Cases[o.cid]
               f == c.file
               op == OptOfCase(c)
               cur == IF k = 0 THEN [pos |-> 1, st |-> "loop", n |-> 0, fetched |-> 0] ELSE m IN
           IF k >= Len(o.events) THEN
                (IF cur.st \in {"returned", "raised"} THEN ci' = ci + 1 /\ k' = 0 /\ m' = <<>> /\ bad' = bad ELSE Fail(o, "trace-ends-before-the-call-does"))
           ELSE LET e == o.events[k + 1]
                    \* process the line that was fetched last, if any (Read*): returns the new state or "bad" when that line cannot be read
                    afterRead == IF cur.fetched = 0 THEN cur
                                 ELSE [cur EXCEPT !.pos = cur.fetched + 1, !.n = IF IsD(f, op, cur.fetched) THEN @ + 1 ELSE @, !.fetched = 0] IN
                CASE e[1] = "next" ->
                        IF cur.st # "loop" THEN Fail(o, "line-read-after-the-loop-ended")
                        ELSE IF cur.fetched # 0 /\ ~Readable(f, op, cur.fetched) THEN Fail(o, "continued-past-a-bad-line")
                        ELSE IF e[2] # afterRead.pos \/ e[2] > Len(f) THEN Fail(o, "lines-not-consumed-one-by-one-in-order")
                        ELSE k' = k + 1 /\ m' = [afterRead EXCEPT !.fetched = e[2]] /\ ci' = ci /\ bad' = bad
                  [] e[1] = "eof" ->
                        IF cur.st # "loop" THEN Fail(o, "line-read-after-the-loop-ended")
                        ELSE IF cur.fetched # 0 /\ ~Readable(f, op, cur.fetched) THEN Fail(o, "continued-past-a-bad-line")
                        ELSE IF afterRead.pos # Len(f) + 1 THEN Fail(o, "end-of-file-before-every-line-was-read")
                        ELSE k' = k + 1 /\ m' = [afterRead EXCEPT !.st = "ended"] /\ ci' = ci /\ bad' = bad            \* EndLoop is now enabled
                  [] e[1] = "close" ->
                        \* (EndLoop | RaiseInvalid) ; ExitCtx
                        IF cur.st = "ended" THEN k' = k + 1 /\ m' = [cur EXCEPT !.st = "framed"] /\ ci' = ci /\ bad' = bad
                        ELSE IF cur.st = "loop" /\ cur.fetched # 0 /\ ~Readable(f, op, cur.fetched) THEN k' = k + 1 /\ m' = [cur EXCEPT !.st = "raised"] /\ ci' = ci /\ bad' = bad
                        ELSE Fail(o, "stream-closed-while-readable-lines-remain")
                  [] e[1] = "returned" ->
                        \* FinishStep from "framed"
                        IF cur.st # "framed" THEN Fail(o, "returned-without-closing-or-after-a-bad-line")
                        ELSE IF Read(f, op).st # "returned" THEN Fail(o, "returned-where-the-specification-raises")
                        ELSE IF e[2] # cur.n \/ cur.n # Len(DataLines(f)) THEN Fail(o, "row-count")
                        ELSE k' = k + 1 /\ m' = [cur EXCEPT !.st = "returned"] /\ ci' = ci /\ bad' = bad
                  [] e[1] = "raised" ->
                        IF cur.st = "raised" \/ (cur.st = "framed" /\ Read(f, op).st = "raised") THEN k' = k + 1 /\ m' = [cur EXCEPT !.st = "raised"] /\ ci' = ci /\ bad' = bad
                        ELSE IF cur.st = "framed" THEN Fail(o, "raised-on-a-valid-file")
                        ELSE Fail(o, "raised-without-closing-the-stream")
                  [] OTHER -> Fail(o, "unknown-event")
        /\ UNCHANGED rvars
Next == Step
Verdict == ci = Len(Obs) + 1 => PrintT(<<"VERDICT", Len(Obs), bad>>)
=============================================================================
