----------------------------- MODULE Trace_SwcIO -----------------------------
(***************************************************************************)
(* Trace validation of the reader (C02).  The executor hands the real      *)
(* reader a text stream that logs which lines it has been handed (however  *)
(* it asks for them), when it was told the stream is exhausted, and its    *)
(* close(); the outcome of the call is the last event:                     *)
(*   <<"next", k>>  line k was handed to the reader                        *)
(*   <<"eof">>      the reader was told that there are no more lines       *)
(*   <<"close">>    the stream was closed                                  *)
(*   <<"returned", nrows>> / <<"raised">>                                  *)
(* Replayed against the reader state machine of SwcIO.tla at the level the *)
(* property fixes:  the machine's position is the number of lines handed   *)
(* out; it is "doomed" once a line it cannot read has been handed out; it  *)
(* may return only if it is not doomed, every line has been handed out     *)
(* and the specification returns, with one row per data line; it may       *)
(* raise only where the specification raises.  Whether a doomed reader     *)
(* stops at once (RaiseInvalid, as the code does) or goes on collecting    *)
(* lines before it raises, and whether it closes a stream it was given,    *)
(* is not fixed by the property and not judged.                            *)
(* A text stream is already decoded, so RaiseDecode cannot occur here.     *)
(***************************************************************************)
EXTENDS SwcIO, Json, IOUtils
Cases == ndJsonDeserialize(IOEnv.CASES)
Obs   == ndJsonDeserialize(IOEnv.OBS)
OptOfCase(c) == Opt(c.o.nex, c.o.mode = 0, c.o.mode = 1, "latin-1")
VARIABLES ci, k, m, bad
\* m = [pos, st, nrows]: the machine state that matters for the replay (the full row contents are judged by Judge_SwcIO)
Init == ci = 1 /\ k = 0 /\ m = <<>> /\ bad = <<>> /\ RInit({<<>>}, {Opt(0, FALSE, FALSE, "utf-8")})
Fail(o, w) == bad' = Append(bad, <<o.cid, w>>) /\ ci' = ci + 1 /\ k' = 0 /\ m' = <<>>
Readable(f, op, j) == j >= 1 /\ j <= Len(f) /\ ~Malformed(f[j], op)                       \* one of ReadData / ReadComment / ReadBlank is enabled on line j
Step == /\ ci <= Len(Obs)
        /\ LET o == Obs[ci]
               c == Cases[o.cid]
               f == c.file
               op == OptOfCase(c)
               cur == IF k = 0 THEN [pos |-> 0, st |-> "loop", doomed |-> FALSE, closed |-> FALSE] ELSE m IN
           IF k >= Len(o.events) THEN
                (IF cur.st \in {"returned", "raised"} THEN ci' = ci + 1 /\ k' = 0 /\ m' = <<>> /\ bad' = bad ELSE Fail(o, "trace-ends-before-the-call-does"))
           ELSE LET e == o.events[k + 1] IN
                CASE e[1] = "next" ->
                        IF cur.st # "loop" THEN Fail(o, "line-read-after-the-call-ended")
                        ELSE IF e[2] # cur.pos + 1 \/ e[2] > Len(f) THEN Fail(o, "lines-not-handed-out-in-order")
                        ELSE k' = k + 1 /\ m' = [cur EXCEPT !.pos = e[2], !.doomed = (@ \/ ~Readable(f, op, e[2]))] /\ ci' = ci /\ bad' = bad
                  [] e[1] = "eof" ->
                        IF cur.pos # Len(f) THEN Fail(o, "end-of-file-before-every-line-was-read")
                        ELSE k' = k + 1 /\ m' = cur /\ ci' = ci /\ bad' = bad
                  [] e[1] = "close" -> k' = k + 1 /\ m' = [cur EXCEPT !.closed = TRUE] /\ ci' = ci /\ bad' = bad
                  [] e[1] = "returned" ->
                        IF cur.doomed THEN Fail(o, "returned-after-a-bad-line")
                        ELSE IF cur.pos # Len(f) THEN Fail(o, "returned-before-every-line-was-read")
                        ELSE IF Read(f, op).st # "returned" THEN Fail(o, "returned-where-the-specification-raises")
                        ELSE IF e[2] # Len(DataLines(f)) THEN Fail(o, "row-count")
                        ELSE k' = k + 1 /\ m' = [cur EXCEPT !.st = "returned"] /\ ci' = ci /\ bad' = bad
                  [] e[1] = "raised" ->
                        IF Read(f, op).st = "raised" THEN k' = k + 1 /\ m' = [cur EXCEPT !.st = "raised"] /\ ci' = ci /\ bad' = bad
                        ELSE Fail(o, "raised-on-a-valid-file")
                  [] OTHER -> Fail(o, "unknown-event")
        /\ UNCHANGED rvars
Next == Step
Verdict == ci = Len(Obs) + 1 => PrintT(<<"VERDICT", Len(Obs), bad>>)
=============================================================================
