CONSTANTS
  Pool <- PoolA
  MaxLines = 3
  Und = TRUE
  Thre2 = 1
  Mode = "onepass"
SPECIFICATION Spec
INVARIANT ClosedAreClasses
INVARIANT FinishedIsRight
INVARIANT IdsArePositions
