-------------------------------- MODULE Lexer --------------------------------
(***************************************************************************)
(* C15 — the ASC tokeniser, character by character.                        *)
(* Input: a sequence of characters (one-character strings).  Delimiters    *)
(* are blank, tab, newline and the four one-character tokens ( ) ; |.      *)
(* A word is a maximal run of other characters.  The lexer is the state    *)
(* machine below (one action per character class); Lex(s) is the same      *)
(* thing as a function, and MC_Lexer checks that the machine computes it.  *)
(* Tokens: <<"(">>, <<")">>, <<"|">>, <<";", text of the rest of the line>>,*)
(* <<"F", word>> for a word that is a number, <<"L", word>> for any other  *)
(* word; a word that only *starts* like a number ("1abc", "1.1.1", "1e")   *)
(* is an error: the document is rejected.                                  *)
(***************************************************************************)
EXTENDS Integers, Sequences, FiniteSets, TLC

Blank == {" ", "\t", "\n"}
\* the alphabet used for exhaustive exploration (defined here, not in a cfg file: TLC does not interpret escapes in cfg strings)
SmallAlphabet == {"(", ")", "|", ";", " ", "\n", "1", ".", "-", "e", "a"}
Single == {"(", ")", "|"}
Delim == Blank \cup Single \cup {";"}
Digit == {"0", "1", "2", "3", "4", "5", "6", "7", "8", "9"}

\* ---- numbers: [sign] (digits [. digits*] | . digits) [e [sign] digits]  (what the host language's float() accepts, without underscores) ----
RECURSIVE AllDigits(_, _, _)
AllDigits(w, a, b) == a > b \/ (w[a] \in Digit /\ AllDigits(w, a + 1, b))          \* w[a..b], empty allowed
IsMantissa(w, a, b) == \* w[a..b] is digits [. digits*] or . digits
    /\ a <= b
    /\ \/ AllDigits(w, a, b)
       \/ \E d \in a .. b : w[d] = "." /\ AllDigits(w, a, d - 1) /\ AllDigits(w, d + 1, b) /\ (d > a \/ d < b)
IsUnsigned(w, a, b) == \/ IsMantissa(w, a, b)
                       \/ \E e \in a + 1 .. b - 1 : w[e] \in {"e", "E"} /\ IsMantissa(w, a, e - 1)
                                                    /\ LET x == IF w[e + 1] \in {"+", "-"} THEN e + 2 ELSE e + 1 IN x <= b /\ AllDigits(w, x, b)
IsNumber(w) == Len(w) > 0 /\ LET a == IF w[1] \in {"+", "-"} THEN 2 ELSE 1 IN IsUnsigned(w, a, Len(w))
\* the prefix test the tokeniser applies first:  [-+]? [0-9]* \.? [0-9]+  (then optionally an exponent): some prefix of the word is of that form
StartsLikeNumber(w) == Len(w) > 0 /\ LET a == IF w[1] \in {"+", "-"} THEN 2 ELSE 1 IN
                       a <= Len(w) /\ (w[a] \in Digit \/ (w[a] = "." /\ a < Len(w) /\ w[a + 1] \in Digit))

\* ---- the value a number word denotes, times 10^6, where that is an integer below 2^31 (-1: not decided here) ----
DigitVal(c) == CHOOSE v \in 0 .. 9 : <<"0", "1", "2", "3", "4", "5", "6", "7", "8", "9">>[v + 1] = c
RECURSIVE DigitsVal(_, _, _)
DigitsVal(w, a, b) == IF a > b THEN 0 ELSE DigitsVal(w, a, b - 1) * 10 + DigitVal(w[b])
RECURSIVE Pow10(_)
Pow10(k) == IF k = 0 THEN 1 ELSE 10 * Pow10(k - 1)
Micro(w) ==      \* w is a number word; magnitudes only (the sign is reported separately)
    LET a  == IF w[1] \in {"+", "-"} THEN 2 ELSE 1
        es == { e \in a .. Len(w) : w[e] \in {"e", "E"} }
        me == IF es = {} THEN Len(w) ELSE (CHOOSE e \in es : TRUE) - 1                      \* end of the mantissa
        ds == { d \in a .. me : w[d] = "." }
        dp == IF ds = {} THEN me + 1 ELSE CHOOSE d \in ds : TRUE                           \* position of the point (or just past the mantissa)
        k  == me - dp                                                                        \* digits after the point (-1 -> 0 when there is none)
        kk == IF k < 0 THEN 0 ELSE k
        mant == DigitsVal(w, a, dp - 1) * Pow10(kk) + (IF kk > 0 THEN DigitsVal(w, dp + 1, me) ELSE 0)
        ex == IF es = {} THEN 0
              ELSE LET e == CHOOSE e \in es : TRUE
                       neg == w[e + 1] = "-"
                       x == IF w[e + 1] \in {"+", "-"} THEN e + 2 ELSE e + 1
                       v == IF Len(w) - x > 1 THEN 99 ELSE DigitsVal(w, x, Len(w)) IN IF neg THEN -v ELSE v
        sh == 6 - kk + ex IN
    IF sh < 0 \/ sh > 8 \/ mant > 20000 THEN -1
    ELSE IF mant = 0 THEN 0
    ELSE IF sh >= 5 /\ mant > 2000 THEN -1 ELSE mant * Pow10(sh)
IsNegative(w) == w[1] = "-"

WordToken(w) == IF StartsLikeNumber(w) THEN (IF IsNumber(w) THEN <<"F", w>> ELSE <<"ERROR", w>>) ELSE <<"L", w>>

\* ---- the tokeniser as a function: returns <<tokens, ok>> ----
RECURSIVE WordEnd(_, _)
WordEnd(s, i) == IF i > Len(s) \/ s[i] \in Delim THEN i - 1 ELSE WordEnd(s, i + 1)      \* last index of the word that starts at i
RECURSIVE LineEnd(_, _)
LineEnd(s, i) == IF i > Len(s) \/ s[i] = "\n" THEN i - 1 ELSE LineEnd(s, i + 1)          \* last index before the newline (or the end)
RECURSIVE LexFrom(_, _, _)
LexFrom(s, i, toks) ==
    IF i > Len(s) THEN <<toks, TRUE>>
    ELSE IF s[i] \in Blank THEN LexFrom(s, i + 1, toks)
    ELSE IF s[i] \in Single THEN LexFrom(s, i + 1, Append(toks, <<s[i]>>))
    ELSE IF s[i] = ";" THEN LET e == LineEnd(s, i + 1) IN LexFrom(s, e + 2, Append(toks, <<";", SubSeq(s, i + 1, e)>>))
    ELSE LET e == WordEnd(s, i)  t == WordToken(SubSeq(s, i, e)) IN
         IF t[1] = "ERROR" THEN <<toks, FALSE>> ELSE LexFrom(s, e + 1, Append(toks, t))
Lex(s) == LexFrom(s, 1, <<>>)
=============================================================================
