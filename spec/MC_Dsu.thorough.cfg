CONSTANT N = 7
CONSTANT UseNoFind = FALSE
CONSTANT TrackUnions = FALSE
SPECIFICATION Spec
INVARIANT ForestInv
INVARIANT SamePart
INVARIANT MatchOK
INVARIANT RankOK
