-------------------------- MODULE Trace_Population --------------------------
(***************************************************************************)
(* Trace validation for C19.  A case is a directory layout (c.dirs) and a  *)
(* history of container operations; the executor performs the history on   *)
(* real Population / Populations / NestTrees / ChainTrees objects in a     *)
(* scratch directory and logs, after every operation, the action (with the *)
(* file order the library itself reports, which is environment-dependent   *)
(* and therefore an input), what the caller saw, and how often every file  *)
(* has been opened for reading.  Every step must be the Population.tla     *)
(* step: same result, and reads that are at most once, only on demand      *)
(* (or a permitted probe), and present for every tree handed out.          *)
(***************************************************************************)
EXTENDS Population, Json, IOUtils
Cases == ndJsonDeserialize(IOEnv.CASES)
Obs   == ndJsonDeserialize(IOEnv.OBS)
VARIABLES ci, k, s, bad
Init == ci = 1 /\ k = 0 /\ s = <<>> /\ bad = <<>>
IsPerm(a, b) == Len(a) = Len(b) /\ SeqRange(a) = SeqRange(b) /\ Cardinality(SeqRange(a)) = Len(a)
Common(dirs, roots) == { n \in SeqRange(dirs[roots[1]]) : \A j \in DOMAIN roots : n \in SeqRange(dirs[roots[j]]) }
OrderWhy(dirs, act) ==
    IF act.a = "from_swc" /\ ~IsPerm(act.order, dirs[act.r]) THEN "population-does-not-list-exactly-the-swc-files"
    ELSE IF act.a = "zip" /\ ~(SeqRange(act.order) = Common(dirs, act.roots) /\ Cardinality(SeqRange(act.order)) = Len(act.order)) THEN "rows-are-not-the-same-named-files"
    ELSE ""
ObsReads(dirs, lst) == [f \in Files(dirs) |-> LET e == CHOOSE e \in SeqRange(lst) : <<e[1], e[2]>> = f IN e[3]]
Fail(o, w) == bad' = Append(bad, <<o.cid, w>>) /\ ci' = ci + 1 /\ k' = 0 /\ s' = <<>>
Step == /\ ci <= Len(Obs)
        /\ LET o == Obs[ci]
               c == Cases[o.cid]
               cur == IF k = 0 THEN S0(c.dirs) ELSE s IN
           IF o.err # "" THEN Fail(o, "raised-" \o o.err)
           ELSE IF k < Len(o.steps) THEN
                LET st == o.steps[k + 1]
                    ow == OrderWhy(c.dirs, st.act) IN
                IF ow # "" THEN Fail(o, ow)
                ELSE LET e == Do(c.dirs, cur, st.act)
                         w == IF st.res # e.res THEN "result-" \o st.act.a ELSE ReadsWhy(e.s, ObsReads(c.dirs, st.reads)) IN
                     IF w # "" THEN Fail(o, w) ELSE k' = k + 1 /\ s' = e.s /\ ci' = ci /\ bad' = bad
           ELSE IF Len(o.steps) # Len(c.hist) THEN Fail(o, "history-not-completed")
           ELSE ci' = ci + 1 /\ k' = 0 /\ s' = <<>> /\ bad' = bad
Next == Step
Verdict == ci = Len(Obs) + 1 => PrintT(<<"VERDICT", Len(Obs), bad>>)
=============================================================================
