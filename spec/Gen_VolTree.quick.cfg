CONSTANTS RMax = 3 Extra = 1 NMax = 3
INIT Init
NEXT Next
INVARIANT Emitted
