----------------------------- MODULE Gen_Affine -----------------------------
(***************************************************************************)
(* Specification-level statements of C12 (evaluated by TLC as ASSUMEs over *)
(* the whole parameter grid) and the case generator.                       *)
(***************************************************************************)
EXTENDS Affine, SequencesExt, Json, IOUtils
CONSTANT Big
Pts == { PtI(<<10, 20, 30>>), PtI(<<0, 0, 0>>), PtI(<<-3, 7, 1>>), PtI(<<11, 20, 28>>) }
Vs  == { PtI(<<1, 2, 3>>), PtI(<<-5, 0, 7>>) } \cup (IF Big THEN { <<Q(1, 2), Q(-7, 4), R(100)>> } ELSE {})
Ss  == { PtI(<<2, 2, 2>>), <<One, R(3), Q(1, 2)>> } \cup (IF Big THEN { <<Q(3, 4), Q(3, 4), Q(3, 4)>>, PtI(<<1, 1, 5>>) } ELSE {})
Centres == {"origin", "root"}
Rotations == { [op |-> "rotx", a |-> a] : a \in Angles } \cup { [op |-> "roty", a |-> a] : a \in Angles } \cup { [op |-> "rotz", a |-> a] : a \in Angles }
             \cup { [op |-> "rotate", n |-> n, a |-> a] : n \in Axes, a \in Angles }
Ops0 == Rotations \cup { [op |-> "translate", v |-> v] : v \in Vs } \cup { [op |-> "scale", v |-> v] : v \in Ss }
        \cup { [op |-> "affine", v |-> v, a |-> a, w |-> w] : v \in { PtI(<<1, 2, 3>>) }, a \in { <<Q(3, 5), Q(4, 5)>>, <<Zero, One>> }, w \in Ss }
Ops == { o @@ [centre |-> c] : o \in Ops0, c \in Centres }
\* further operations for the executor only (the statements below square coordinates, which overflows 32 bits at these denominators; zero factors have no inverse):
\* very small turns, and scalings that flatten the tree onto a plane or a line
CoordAxes == { <<One, Zero, Zero>>, <<Zero, R(-1), Zero>>, <<Zero, Zero, One>> }
OpsX0 == { [op |-> "rotx", a |-> a] : a \in SmallAngles } \cup { [op |-> "roty", a |-> a] : a \in SmallAngles } \cup { [op |-> "rotz", a |-> a] : a \in SmallAngles }
         \cup { [op |-> "rotate", n |-> n, a |-> a] : n \in CoordAxes \cup { <<Q(2, 3), Q(2, 3), Q(1, 3)>> }, a \in SmallAngles }
         \cup { [op |-> "scale", v |-> v] : v \in { PtI(<<2, 0, 2>>), PtI(<<1, 1, 0>>), PtI(<<0, 3, 1>>), <<Q(1, 2), Zero, Zero>> } }
OpsX == { o @@ [centre |-> c] : o \in OpsX0, c \in Centres }
HasInverse(o) == o.op # "affine" /\ (o.op = "scale" => \A i \in 1 .. 3 : o.v[i][1] # 0)

\* the chosen centre stays fixed under scaling and rotation
ASSUME \A o \in { x \in Ops : x.op # "translate" /\ x.op # "affine" } : \A c \in Pts : Apply(Eff(o, c), IF o.centre = "root" THEN c ELSE PtI(<<0, 0, 0>>)) = (IF o.centre = "root" THEN c ELSE PtI(<<0, 0, 0>>))
\* rotations preserve every distance
ASSUME \A o \in { x \in Ops : x.op \in {"rotx", "roty", "rotz", "rotate"} } : \A p, q \in Pts : D2(Apply(Eff(o, PtI(<<10, 20, 30>>)), p), Apply(Eff(o, PtI(<<10, 20, 30>>)), q)) = D2(p, q)
\* right-handed sense: a quarter turn about z takes x to y, about x takes y to z, about y takes z to x; Rodrigues about a coordinate axis is the axis rotation; the axis is fixed
ASSUME Apply(Rz(<<Zero, One>>), PtI(<<1, 0, 0>>)) = PtI(<<0, 1, 0>>) /\ Apply(Rx(<<Zero, One>>), PtI(<<0, 1, 0>>)) = PtI(<<0, 0, 1>>) /\ Apply(Ry(<<Zero, One>>), PtI(<<0, 0, 1>>)) = PtI(<<1, 0, 0>>)
ASSUME \A a \in Angles : Rod(<<One, Zero, Zero>>, a) = Rx(a) /\ Rod(<<Zero, One, Zero>>, a) = Ry(a) /\ Rod(<<Zero, Zero, One>>, a) = Rz(a)
ASSUME \A n \in Axes : \A a \in Angles : Apply(Rod(n, a), n) = n
\* turning about the opposite axis is turning by the opposite angle
ASSUME \A n \in Axes : \A a \in Angles : Rod(<<RNeg(n[1]), RNeg(n[2]), RNeg(n[3])>>, a) = Rod(n, <<a[1], RNeg(a[2])>>)
\* scaling multiplies root-relative offsets per axis
ASSUME \A sv \in Ss : \A c, p \in Pts : LET q == Apply(About(S(sv), c), p) IN \A i \in 1 .. 3 : RSub(q[i], c[i]) = RMul(sv[i], RSub(p[i], c[i]))
\* a transform followed by its inverse restores the original coordinates
ASSUME \A o \in { x \in Ops : x.op # "affine" } : \A c, p \in Pts : Apply(Eff(Inv(o), c), Apply(Eff(o, c), p)) = p

\* ---- cases: an operation object applied to one or two trees (the same object is reused), and operation followed by its inverse ----
TreeA == << <<10, 20, 30>>, <<11, 20, 28>>, <<7, 25, 30>>, <<10, 20, 30>> >>          \* root away from the origin; the last node sits on the root
TreeB == << <<-4, 0, 6>>, <<0, 0, 0>>, <<-4, 9, 6>> >>
TreeC == << <<0, 0, 0>>, <<1, 0, 0>>, <<0, 1, 0>>, <<0, 0, 1>> >>
TreeSets == { <<TreeA>>, <<TreeB, TreeA>>, <<TreeC, TreeB>> }
Img(o, tr) == [k \in 1 .. Len(tr) |-> Apply(Eff(o, PtI(tr[1])), PtI(tr[k]))]
ApplyCases == { [kind |-> "apply", o |-> o, trees |-> ts, exp |-> [j \in 1 .. Len(ts) |-> Img(o, ts[j])]] : o \in Ops \cup OpsX, ts \in TreeSets }
InvCases   == { [kind |-> "inverse", o |-> o, oi |-> Inv(o), trees |-> <<TreeA>>, exp |-> << [k \in 1 .. Len(TreeA) |-> PtI(TreeA[k])] >>] : o \in { x \in Ops \cup OpsX : HasInverse(x) } }
OrgCases   == { [kind |-> "apply", o |-> [op |-> "translate_origin", centre |-> "origin"], trees |-> ts,
                 exp |-> [j \in 1 .. Len(ts) |-> Img([op |-> "translate_origin", centre |-> "origin"], ts[j])]] : ts \in TreeSets }
MatCases   == { [kind |-> "matrix", o |-> o, trees |-> <<>>, exp |-> <<>>, m |-> Mat(o)] : o \in { x \in Ops \cup OpsX : x.centre = "origin" /\ x.op # "affine" } }
\* two steps in a row (as Transforms(first, second) and as second(first(x))): a step that moves the root, then a step about the root - which is where the first left it
Firsts  == { o \in Ops : o.centre = "root" /\ o.op \in {"translate", "affine"} }
Seconds == { o \in Ops : o.centre = "root" /\ (o.op = "scale" \/ (o.op = "rotz" /\ o.a \in { <<Q(3, 5), Q(4, 5)>>, <<Zero, One>> })) }
Img2(o1, o2, tr) == LET c == PtI(tr[1])  c2 == Apply(Eff(o1, c), c) IN [k \in 1 .. Len(tr) |-> Apply(Eff(o2, c2), Apply(Eff(o1, c), PtI(tr[k])))]
PipeCases == { [kind |-> "pipe", o |-> o1, oi |-> o2, trees |-> <<TreeA>>, exp |-> << Img2(o1, o2, TreeA) >>] : o1 \in Firsts, o2 \in Seconds }
AllSeq == SetToSeq(ApplyCases \cup InvCases \cup OrgCases \cup MatCases \cup PipeCases)
Numbered == [j \in 1 .. Len(AllSeq) |-> [cid |-> j, wind |-> (j % 3) - 1] @@ AllSeq[j]]
VARIABLE done
Init == done = ndJsonSerialize(IOEnv.OUT, Numbered)
Next == FALSE /\ UNCHANGED done
Emitted == done => PrintT(<<"CASES", Len(AllSeq)>>)
=============================================================================
