CONSTANTS
  M = 3
  GPool <- PoolB
INIT GInit
NEXT GNext
INVARIANT Emitted
