----------------------------- MODULE SortNodes -----------------------------
(***************************************************************************)
(* C05 — node renumbering is a pure relabelling with parents before        *)
(* children.  A *table* is (ids, pids, cols): row k has id ids[k], parent  *)
(* id pids[k] (-1: none) and a tuple of per-node columns cols[k]           *)
(* (type, x, y, z, r and any extra columns).  Ids are arbitrary distinct   *)
(* integers, rows are in arbitrary order, the root row is anywhere.        *)
(***************************************************************************)
EXTENDS SwcBase

\* Q: parent *row* (0-based) of each row, -1 for the root row
SingleRooted(Q) == /\ Cardinality(Roots(Q)) = 1
                   /\ \A i \in Nodes(Q) : Par(Q, i) \in Nodes(Q) \cup {-1}
                   /\ \A i \in Nodes(Q) : (CHOOSE r \in Roots(Q) : TRUE) \in Anc(Q, i)
TableTopos(n)   == { Q \in [1 .. n -> -1 .. n - 1] : SingleRooted(Q) }
PidsOf(ids, Q)  == [k \in 1 .. Len(Q) |-> IF Q[k] = -1 THEN -1 ELSE ids[Q[k] + 1]]

\* The relation between a table and a claimed sorted version of it.
\* map[k] = the old row (0-based) that new row k-1 came from (recovered from a per-row identity tag).
RelabelWhy(ids, pids, cols, map, rids, rpids, rcols) ==
    LET n == Len(ids) IN
    IF Len(map) # n \/ ~Injective(map) \/ Range(map) # 0 .. n - 1 THEN "not-a-bijection"
    ELSE IF rids # [k \in 1 .. n |-> k - 1]                        THEN "ids-not-0..n-1"
    ELSE IF \E k \in 1 .. n : rcols[k] # cols[map[k] + 1]          THEN "per-node-columns"
    ELSE IF \E k \in 1 .. n : (pids[map[k] + 1] = -1) # (rpids[k] = -1) THEN "root-status"
    ELSE IF \E k \in 1 .. n : rpids[k] # -1 /\ (rpids[k] \notin 0 .. n - 1 \/ ids[map[rpids[k] + 1] + 1] # pids[map[k] + 1])
                                                                   THEN "parent-relation"
    ELSE IF \E k \in 1 .. n : rpids[k] >= k - 1                    THEN "parents-before-children"
    ELSE IF rpids[1] # -1                                          THEN "root-is-0"
    ELSE ""
=============================================================================
