CONSTANTS MaxObjs = 3 AllowAlias = FALSE AllowInPlace = TRUE
SPECIFICATION Spec
INVARIANT AllWF
INVARIANT NoSharing
PROPERTY Pure
PROPERTY Isolation
