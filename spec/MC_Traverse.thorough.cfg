CONSTANT MaxN = 6
CONSTANT NoVal <- NoneTerm
SPECIFICATION Spec
INVARIANT EveryEventAllowed
INVARIANT StackBounded
INVARIANT IsRec
PROPERTY Terminates
