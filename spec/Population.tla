----------------------------- MODULE Population -----------------------------
(***************************************************************************)
(* C19 — population containers as a state machine.                         *)
(*                                                                         *)
(* Dirs[r] = the relative names of the swc files under root r (nested      *)
(* folders are part of the name).  A file is <<r, name>>.  The heap s.objs *)
(* is a sequence of container objects, referred to by position:            *)
(*   [k |-> "lazy",  files]      LazyLoadingTrees over a list of files     *)
(*   [k |-> "nest",  base, idx]  NestTrees (slices)                        *)
(*   [k |-> "chain", mem]        ChainTrees over container objects         *)
(*   [k |-> "pop",   tr]         Population over a container               *)
(*   [k |-> "zip",   pops]       Populations                               *)
(* s.cache[o] = positions of lazy container o that hold a loaded tree,     *)
(* s.reads[f] = how often file f has been read, s.req = files whose tree   *)
(* has been handed out so far, s.probe = files that a constructor was      *)
(* allowed to probe.  Every action is a value (a record) so that the same  *)
(* operators serve exhaustive exploration, generation and trace checking.  *)
(***************************************************************************)
EXTENDS Integers, Sequences, FiniteSets, TLC

None == 99
Mx(a, b) == IF a > b THEN a ELSE b
Mn(a, b) == IF a < b THEN a ELSE b
RECURSIVE SumLens(_)
SumLens(ls) == IF ls = <<>> THEN 0 ELSE Head(ls) + SumLens(Tail(ls))
SeqRange(q) == { q[j] : j \in DOMAIN q }

Files(Dirs) == UNION { { <<r, Dirs[r][j]>> : j \in DOMAIN Dirs[r] } : r \in DOMAIN Dirs }
S0(Dirs) == [objs |-> <<>>, cache |-> <<>>, reads |-> [f \in Files(Dirs) |-> 0], req |-> {}, probe |-> {}]

\* ---- length and element resolution (which file's tree does container o hand out for Python key `key`?) ----
RECURSIVE LenOf(_, _)
LenOf(s, o) == LET ob == s.objs[o] IN
    CASE ob.k = "lazy"  -> Len(ob.files)
      [] ob.k = "nest"  -> Len(ob.idx)
      [] ob.k = "chain" -> SumLens([m \in DOMAIN ob.mem |-> LenOf(s, ob.mem[m])])
      [] ob.k = "pop"   -> LenOf(s, ob.tr)
      [] ob.k = "zip"   -> LET ls == { LenOf(s, ob.pops[m]) : m \in DOMAIN ob.pops } IN CHOOSE x \in ls : \A y \in ls : x <= y

\* Python list / _get_idx semantics: valid keys are -n .. n-1
Norm(key, n) == IF key < 0 THEN key + n ELSE key
Valid(key, n) == key >= -n /\ key < n
\* Where(s, o, key) = <<lazy container, position>> of the tree, or <<0, 0>> for IndexError
RECURSIVE Where(_, _, _)
Where(s, o, key) == LET ob == s.objs[o]  n == LenOf(s, o) IN
    IF ~Valid(key, n) THEN <<0, 0>>
    ELSE CASE ob.k = "lazy"  -> <<o, Norm(key, n) + 1>>
           [] ob.k = "nest"  -> Where(s, ob.base, ob.idx[Norm(key, n) + 1])
           [] ob.k = "pop"   -> Where(s, ob.tr, key)
           [] ob.k = "chain" -> LET i == Norm(key, n)
                                    cum(m) == SumLens([q \in 1 .. m |-> LenOf(s, ob.mem[q])])
                                    m == CHOOSE q \in DOMAIN ob.mem : cum(q - 1) <= i /\ i < cum(q) IN
                                Where(s, ob.mem[m], i - cum(m - 1))
FileAt(s, w) == s.objs[w[1]].files[w[2]]

\* handing out the tree at w: read the file unless this container already holds it
Load(s, w, asProbe) ==
    LET f == FileAt(s, w)  hit == w[2] \in s.cache[w[1]] IN
    [s EXCEPT !.cache[w[1]] = @ \cup {w[2]}, !.reads[f] = IF hit THEN @ ELSE @ + 1,
              !.req = IF asProbe THEN @ ELSE @ \cup {f}, !.probe = IF asProbe THEN @ \cup {f} ELSE @]
\* Population(trees): the constructor looks at element 0 when there is one (the documented probe)
Probe(s, o) == IF LenOf(s, o) > 0 THEN Load(s, Where(s, o, 0), TRUE) ELSE s
Alloc(s, ob) == [s EXCEPT !.objs = Append(@, ob), !.cache = Append(@, {})]

\* Python slice semantics for steps 1, 2, -1 (None = 99)
SliceIdx(n, a, b, st) ==
    IF st > 0 THEN LET lo == IF a = None THEN 0 ELSE IF a < 0 THEN Mx(a + n, 0) ELSE Mn(a, n)
                       hi == IF b = None THEN n ELSE IF b < 0 THEN Mx(b + n, 0) ELSE Mn(b, n) IN
                   [j \in 1 .. Mx(0, (hi - lo + st - 1) \div st) |-> lo + (j - 1) * st]
    ELSE LET lo == IF a = None THEN n - 1 ELSE IF a < 0 THEN Mx(a + n, -1) ELSE Mn(a, n - 1)
             hi == IF b = None THEN -1 ELSE IF b < 0 THEN Mx(b + n, -1) ELSE Mn(b, n - 1) IN
         [j \in 1 .. Mx(0, lo - hi) |-> lo - (j - 1)]

\* iterate container o in order: hand out every element
RECURSIVE IterFrom(_, _, _, _)
IterFrom(s, o, j, acc) == IF j >= LenOf(s, o) THEN [s |-> s, out |-> acc]
                          ELSE LET w == Where(s, o, j) IN IterFrom(Load(s, w, FALSE), o, j + 1, Append(acc, FileAt(s, w)))

\* ---- actions: Do(Dirs, s, act) = [s |-> new state, res |-> what the caller sees] ----
Do(Dirs, s, act) ==
    CASE act.a = "from_swc" ->                 \* Population.from_swc(root r); act.order = the file list the population reports
            LET s1 == Alloc(s, [k |-> "lazy", files |-> [j \in DOMAIN act.order |-> <<act.r, act.order[j]>>]])
                s2 == Alloc(s1, [k |-> "pop", tr |-> Len(s1.objs)]) IN
            [s |-> Probe(s2, Len(s2.objs)), res |-> <<"obj", Len(act.order)>>]
      [] act.a = "index" ->                    \* container[key]
            LET w == Where(s, act.o, act.key) IN
            IF w = <<0, 0>> THEN [s |-> s, res |-> <<"IndexError">>]
            ELSE [s |-> Load(s, w, FALSE), res |-> <<"tree", FileAt(s, w)>>]
      [] act.a = "slice" ->                    \* population[a:b:st] -> NestTrees over the population's container (nothing is read)
            LET idx == SliceIdx(LenOf(s, act.o), act.lo, act.hi, act.st)
                s1 == Alloc(s, [k |-> "nest", base |-> s.objs[act.o].tr, idx |-> idx]) IN
            [s |-> s1, res |-> <<"obj", Len(idx)>>]
      [] act.a = "popof" ->                    \* Population(container): a population over an existing container (a slice view, ...); the constructor may probe element 0
            LET s1 == Alloc(s, [k |-> "pop", tr |-> act.o]) IN
            [s |-> Probe(s1, Len(s1.objs)), res |-> <<"obj", LenOf(s1, Len(s1.objs))>>]
      [] act.a = "iter" ->                     \* list(container)
            LET r == IterFrom(s, act.o, 0, <<>>) IN [s |-> r.s, res |-> <<"trees", r.out>>]
      [] act.a = "map" ->                      \* list(population.map(fn))
            LET r == IterFrom(s, act.o, 0, <<>>) IN [s |-> r.s, res |-> <<"trees", r.out>>]
      [] act.a = "ptransform" ->               \* PopulationTransform(f)(population): one transformed tree per tree, in order (every member is handed out once)
            LET r == IterFrom(s, act.o, 0, <<>>) IN [s |-> r.s, res |-> <<"trees", r.out>>]
      [] act.a = "len" -> [s |-> s, res |-> <<"len", LenOf(s, act.o)>>]
      [] act.a = "zip" ->                      \* Populations.from_swc(roots): same-named files of all roots; act.order = the common names as reported
            LET RECURSIVE Mk(_, _)
                Mk(st, j) == IF j > Len(act.roots) THEN st
                             ELSE LET s1 == Alloc(st, [k |-> "lazy", files |-> [q \in DOMAIN act.order |-> <<act.roots[j], act.order[q]>>]])
                                      s2 == Alloc(s1, [k |-> "pop", tr |-> Len(s1.objs)]) IN
                                  Mk(Probe(s2, Len(s2.objs)), j + 1)
                s3 == Mk(s, 1)
                s4 == Alloc(s3, [k |-> "zip", pops |-> [j \in DOMAIN act.roots |-> Len(s.objs) + 2 * j]]) IN
            [s |-> s4, res |-> <<"obj", Len(act.order)>>]
      [] act.a = "zipof" ->                    \* Populations([p1, p2, ...]) of existing populations
            [s |-> Alloc(s, [k |-> "zip", pops |-> act.pops]), res |-> <<"obj", LenOf(Alloc(s, [k |-> "zip", pops |-> act.pops]), Len(s.objs) + 1)>>]
      [] act.a = "zipindex" ->                 \* populations[key] = one tree per population
            LET ps == s.objs[act.o].pops
                RECURSIVE Row(_, _, _)
                Row(st, j, acc) == IF j > Len(ps) THEN [s |-> st, res |-> <<"row", acc>>]
                                   ELSE LET w == Where(st, ps[j], act.key) IN
                                        IF w = <<0, 0>> THEN [s |-> st, res |-> <<"IndexError">>]
                                        ELSE Row(Load(st, w, FALSE), j + 1, Append(acc, FileAt(st, w))) IN
            Row(s, 1, <<>>)
      [] act.a = "topop" ->                    \* populations.to_population(): the members chained in order
            LET s1 == Alloc(s, [k |-> "chain", mem |-> [j \in DOMAIN s.objs[act.o].pops |-> s.objs[s.objs[act.o].pops[j]].tr]])
                s2 == Alloc(s1, [k |-> "pop", tr |-> Len(s1.objs)]) IN
            [s |-> Probe(s2, Len(s2.objs)), res |-> <<"obj", LenOf(s2, Len(s2.objs))>>]

Kind(s, o) == s.objs[o].k
Objs(s, kinds) == { o \in DOMAIN s.objs : s.objs[o].k \in kinds }
\* actions enabled in s for exploration / generation (roots used at most once; bounded numbers of objects)
Enabled(Dirs, s, Keys, Slices, MaxObjs, used) ==
    (IF Len(s.objs) + 2 <= MaxObjs THEN { [a |-> "from_swc", r |-> r, order |-> Dirs[r]] : r \in DOMAIN Dirs \ used } ELSE {})
    \cup { [a |-> "index", o |-> o, key |-> key] : o \in Objs(s, {"pop", "nest", "chain", "lazy"}), key \in Keys }
    \cup (IF Len(s.objs) + 1 <= MaxObjs THEN { [a |-> "slice", o |-> o, lo |-> sl[1], hi |-> sl[2], st |-> sl[3]] : o \in Objs(s, {"pop"}), sl \in Slices } ELSE {})
    \cup { [a |-> "iter", o |-> o] : o \in Objs(s, {"pop", "nest"}) }
    \cup { [a |-> "len", o |-> o] : o \in Objs(s, {"pop", "nest", "zip"}) }
    \cup (IF Len(s.objs) + 1 <= MaxObjs THEN { [a |-> "zipof", pops |-> <<p, q>>] : p \in Objs(s, {"pop"}), q \in Objs(s, {"pop"}) } ELSE {})
    \cup { [a |-> "zipindex", o |-> o, key |-> key] : o \in Objs(s, {"zip"}), key \in Keys }
    \cup (IF Len(s.objs) + 2 <= MaxObjs THEN { [a |-> "topop", o |-> o] : o \in Objs(s, {"zip"}) } ELSE {})

\* ---- the C19 statements on a state ----
AtMostOnce(s)  == \A f \in DOMAIN s.reads : s.reads[f] <= 1
OnDemand(s)    == \A f \in DOMAIN s.reads : s.reads[f] > 0 => f \in s.req \cup s.probe
Served(s)      == \A f \in s.req : s.reads[f] > 0
\* what an observed reads vector must satisfy in state s (the probe is permitted, not demanded)
ReadsWhy(s, obs) == IF \E f \in DOMAIN s.reads : obs[f] > 1 THEN "file-read-more-than-once"
                    ELSE IF \E f \in DOMAIN s.reads : obs[f] > 0 /\ f \notin s.req \cup s.probe THEN "file-read-without-being-requested"
                    ELSE IF \E f \in s.req : obs[f] = 0 THEN "tree-handed-out-without-reading-its-file"
                    ELSE ""
=============================================================================
