CONSTANT MaxN = 7
INIT Init
NEXT Next
INVARIANT SameUEdges
INVARIANT OneRoot
INVARIANT AllReach
INVARIANT Involution
