---------------------------- MODULE MC_Assemble ----------------------------
(* X03: model checking of the LinesToTree machine against its declarative layer, on every sequence of at most MaxLines lines from a pool (AssembleProp!PoolA / PoolB) *)
EXTENDS Assemble
=============================================================================
