---------------------------- MODULE Judge_Reroot ----------------------------
EXTENDS Reroot, Json, IOUtils
Cases == ndJsonDeserialize(IOEnv.CASES)
Obs   == ndJsonDeserialize(IOEnv.OBS)
Why(c, o) ==
    IF o.err # "" THEN "raised-" \o o.err
    ELSE IF c.op = "reverse_path" THEN
         LET w == ReverseWhy(c.P, c.attr, c.i, o.map, o.rpid, o.rattr) IN
         IF w # "" THEN w ELSE IF o.srcchanged # 0 THEN "input-modified" ELSE ""
    ELSE IF c.op = "redirect" THEN
         LET w == RedirectWhy(c.P, c.attr, c.i, c.sort, o.map, o.rpid, o.rattr) IN
         IF w # "" THEN w ELSE IF o.srcchanged # 0 THEN "input-modified" ELSE IF o.idsok # 1 THEN "ids-not-positions" ELSE ""
    ELSE CatWhy(c, o)
VARIABLES l, bad
Init == l = 0 /\ bad = <<>>
Next == /\ l < Len(Obs)
        /\ l' = l + 1
        /\ LET o == Obs[l + 1]
               w == Why(Cases[o.cid], o) IN
           bad' = IF w = "" THEN bad ELSE Append(bad, <<o.cid, w>>)
Verdict == l = Len(Obs) => PrintT(<<"VERDICT", l, bad>>)
=============================================================================
