CONSTANTS MaxPts = 4 MaxDepth = 2 MaxAlts = 2 MaxMark = 0 Emit = TRUE Fixed = "asis" LeadingEmpty = TRUE
SPECIFICATION Spec
INVARIANT EmitDoc
