-------------------------- MODULE Judge_SortNodes --------------------------
(* Judge for C05: the observed result of sorting must be a relabelling of the input table with *)
(* parents first, and sorting the result again must be a relabelling of the result.           *)
EXTENDS SortNodes, Json, IOUtils
Cases == ndJsonDeserialize(IOEnv.CASES)
Obs   == ndJsonDeserialize(IOEnv.OBS)
Pos(n) == [k \in 1 .. n |-> k - 1]
Why(c, o) ==
    IF o.err # "" THEN "raised-" \o o.err
    ELSE LET w1 == RelabelWhy(c.ids, c.pids, c.cols, o.map, o.rids, o.rpids, o.rcols) IN
         IF w1 # "" THEN w1
         ELSE IF o.issorted # 1 THEN "is_sorted-rejects-result"
         ELSE IF o.srcchanged # 0 THEN "input-modified"
         ELSE LET w2 == RelabelWhy(o.rids, o.rpids, o.rcols, o.map2, o.rids2, o.rpids2, o.rcols2) IN
              IF w2 # "" THEN "second-sort-" \o w2 ELSE ""
VARIABLES l, bad
Init == l = 0 /\ bad = <<>>
Next == /\ l < Len(Obs)
        /\ l' = l + 1
        /\ LET o == Obs[l + 1]
               w == Why(Cases[o.cid], o) IN
           bad' = IF w = "" THEN bad ELSE Append(bad, <<o.cid, w>>)
Verdict == l = Len(Obs) => PrintT(<<"VERDICT", l, bad>>)
=============================================================================
