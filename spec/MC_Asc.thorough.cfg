CONSTANTS MaxPts = 5 MaxDepth = 3 MaxAlts = 3 MaxMark = 1 Emit = FALSE Fixed = "asis" LeadingEmpty = TRUE
SPECIFICATION Spec
INVARIANT Faithful
INVARIANT RejectsTruncated
INVARIANT RejectsCorrupt
INVARIANT RefAgrees
