CONSTANTS Inst = "probe" UseWrongAxis = TRUE
SPECIFICATION Spec
PROPERTY GreedyStep
