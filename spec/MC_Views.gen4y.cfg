CONSTANTS P0 <- PY  MaxSteps = 4 Emit = TRUE MaxTrees = 2 MaxViews = 3 Focus = FALSE
INIT Init
NEXT Next
INVARIANT EmitHist
