CONSTANT MaxLen = 3
SPECIFICATION Spec
INVARIANT NoSilentTruncation
INVARIANT Loud
INVARIANT MachineIsFunction
PROPERTY Terminates
