INIT JInit
NEXT JNext
INVARIANT Verdict
