------------------------------ MODULE Checkers ------------------------------
(***************************************************************************)
(* C18 — what the topology checkers must answer, for EVERY parent table    *)
(* P (P[i+1] is the parent of node i, -1 for none; forests, cycles and     *)
(* self-loops included), stated without reference to any algorithm.        *)
(***************************************************************************)
EXTENDS SwcBase, Dsu

AllTables(n) == [1 .. n -> -1 .. n - 1]
\* a node is on a cycle iff it is among its own strict ancestors (UpK is fuel-bounded, so this is total on cyclic tables)
OnCycle(P, i)  == Par(P, i) \in Nodes(P) /\ i \in UpK(P, Par(P, i), Len(P))
HasCycle(P)    == \E i \in Nodes(P) : OnCycle(P, i)
\* undirected connectivity of the graph whose edges join each node with its parent
EdgeSets(P)    == { {i, Par(P, i)} : i \in { j \in Nodes(P) : Par(P, j) \in Nodes(P) } }
Connected(P)   == Closure(EdgeSets(P), {0}) = Nodes(P)
ParentsPrecede(P) == \A i \in Nodes(P) : Par(P, i) # -1 => Par(P, i) < i
AtMostTwo(P, exemptRoot) == \A k \in Nodes(P) : Cardinality(Kids(P, k)) <= 2 \/ (exemptRoot /\ Par(P, k) = -1)

\* ---- root repair: a forest F (acyclic, >= 1 root) and a claimed repaired table R over the same rows ----
FirstRootOf(F) == Least(Roots(F))
RepairWhy(F, R) ==
    IF Len(R) # Len(F) THEN "row-count"
    ELSE IF \E i \in Nodes(F) : Par(R, i) \notin Nodes(F) \cup {-1} THEN "dangling-parent"
    ELSE IF Roots(R) # {FirstRootOf(F)} THEN "not-single-rooted-at-the-first-root"
    ELSE IF \E i \in Nodes(F) : Par(F, i) # -1 /\ Par(R, i) # Par(F, i) THEN "original-edge-lost"
    ELSE IF \E i \in Nodes(F) : FirstRootOf(F) \notin UpK(R, i, Len(R)) THEN "node-does-not-reach-the-root"
    ELSE ""
\* the two repair modes as specifications
SomasOf(F) == [k \in 1 .. Len(F) |-> IF F[k] = -1 /\ k - 1 # FirstRootOf(F) THEN FirstRootOf(F) ELSE F[k]]
\* 'nearest': secondary roots in row order; each is linked to the nearest node (squared distance D[i+1][j+1]) outside its own
\* current tree; comp = current tree label of every node
RECURSIVE NearestFrom(_, _, _, _)
NearestFrom(R, comp, D, todo) ==
    IF todo = <<>> THEN R
    ELSE LET r   == Head(todo)
             out == { j \in Nodes(R) : comp[j + 1] # comp[r + 1] }
             t   == CHOOSE j \in out : \A q \in out : D[r + 1][j + 1] <= D[r + 1][q + 1]
             c2  == [k \in 1 .. Len(comp) |-> IF comp[k] = comp[r + 1] THEN comp[t + 1] ELSE comp[k]] IN
         NearestFrom([R EXCEPT ![r + 1] = t], c2, D, Tail(todo))
\* named deviation: the tree labels are not merged after a link
RECURSIVE NearestNoMerge(_, _, _, _)
NearestNoMerge(R, comp, D, todo) ==
    IF todo = <<>> THEN R
    ELSE LET r   == Head(todo)
             out == { j \in Nodes(R) : comp[j + 1] # comp[r + 1] }
             t   == CHOOSE j \in out : \A q \in out : D[r + 1][j + 1] <= D[r + 1][q + 1] IN
         NearestNoMerge([R EXCEPT ![r + 1] = t], comp, D, Tail(todo))
TopOf(F) == [k \in 1 .. Len(F) |-> TopAnc(F)[k - 1]]
SecondaryRoots(F) == SeqOfSet(Roots(F) \ {FirstRootOf(F)})
NearestOf(F, D) == NearestFrom(F, TopOf(F), D, SecondaryRoots(F))
=============================================================================
