------------------------------ MODULE TreeOps ------------------------------
(***************************************************************************)
(* C03 — every tree operation returns a well-formed tree and leaves its    *)
(* inputs untouched.                                                       *)
(*                                                                         *)
(* State: a heap of tree objects.  Object o has                            *)
(*   top[o]   its topology (parent ids; ids are positions)                 *)
(*   dig[o]   a digest of its complete content (every column, comments,    *)
(*            source) — equal digests <=> equal content                    *)
(*   cells[o] the set of storage cells (buffers) that hold its columns     *)
(*   usable[o] whether it satisfies the operations' precondition           *)
(*            (well-formed with node 0 the root)                           *)
(* Actions (one per public call):                                          *)
(*   Apply(op, srcs, r) a tree-to-tree operation creates object r          *)
(*   NodeWrite(o)       an attribute is assigned through a node handle of o*)
(* The *content* of results is specified elsewhere (C05-C07, C12, C16);    *)
(* here a result is any tree meeting the structural contract, which is     *)
(* what lets the trace module bind it to the observed one.                 *)
(***************************************************************************)
EXTENDS SwcBase

SortedOps    == {"sort", "redirect_sorted", "io_sorted"}               \* operations that document sorted output
KeepsRootPos == {"redirect_unsorted"}                                   \* new root keeps its old position instead of moving to 0

\* structural contract of a result topology R of operation op (arg = the new root for re-rooting)
ResultWhy(op, arg, R) ==
    IF op \in KeepsRootPos THEN
         IF Len(R) = 0 THEN "empty"
         ELSE IF Roots(R) # {arg} THEN "new-root-not-the-unique-root-at-its-position"
         ELSE IF \E i \in Nodes(R) : i # arg /\ (Par(R, i) \notin Nodes(R) \/ arg \notin Anc(R, i)) THEN "some-node-does-not-reach-the-root"
         ELSE ""
    ELSE IF ~WF(R) THEN "not-well-formed"
    ELSE IF op \in SortedOps /\ ~Sorted(R) THEN "not-sorted-where-documented"
    ELSE ""
UsableAfter(op, arg) == op \notin KeepsRootPos \/ arg = 0

\* heap-level statements (evaluated by the trace module on the observed heap after every step)
NoSharingWhy(cells, r) == IF \E o \in DOMAIN cells : o # r /\ cells[o] \cap cells[r] # {} THEN "result-shares-storage-with-another-tree" ELSE ""
PureWhy(dig, dig2)     == IF \E o \in DOMAIN dig : dig2[o] # dig[o] THEN "an-existing-tree-was-modified" ELSE ""
IsolationWhy(dig, dig2, w) == IF \E o \in DOMAIN dig : o # w /\ dig2[o] # dig[o] THEN "write-leaked-into-another-tree" ELSE ""
=============================================================================
