------------------------------- MODULE Reroot -------------------------------
(***************************************************************************)
(* C07 — re-rooting and concatenation preserve structure and geometry.     *)
(* Results are described "keyed by identity": every node carries an        *)
(* identity (its id in the input tree; for concatenation <<1,k>> / <<2,k>> *)
(* for node k of the first / second tree), so nothing depends on how the   *)
(* library numbers its output.                                             *)
(***************************************************************************)
EXTENDS SwcBase

\* ------------------------------ re-rooting -------------------------------
\* attr[k] = <<type, y, z, r>>; identity of a result node = the input id (map[k])
\* (the input's root need not be its node 0: re-rooting without sorting documents such results, and a file may list the soma last)
RootOf(P) == CHOOSE k \in Nodes(P) : Par(P, k) = -1
RedirType(attr, r0, i, j) == IF j = i THEN attr[r0 + 1][1] ELSE IF j = r0 THEN attr[i + 1][1] ELSE attr[j + 1][1]
RedirectWhy(P, attr, i, sort, map, rpid, rattr) ==
    LET n == Len(P) IN
    IF Len(map) # n \/ ~Injective(map) \/ Range(map) # Nodes(P)              THEN "node-set"
    ELSE IF Len(rpid) # n \/ Len(rattr) # n                                  THEN "lengths"
    ELSE IF \E k \in 1 .. n : rattr[k][1] # RedirType(attr, RootOf(P), i, map[k])        THEN "types"
    ELSE IF \E k \in 1 .. n : Tail(rattr[k]) # Tail(attr[map[k] + 1])         THEN "attributes"
    ELSE IF \E k \in 1 .. n : rpid[k] # -1 /\ rpid[k] \notin 0 .. n - 1       THEN "dangling-parent"
    ELSE IF { k \in 1 .. n : rpid[k] = -1 } # { PosOf(map, i) + 1 }           THEN "root"
    ELSE IF { {map[k], map[rpid[k] + 1]} : k \in { q \in 1 .. n : rpid[q] # -1 } } # UEdges(P) THEN "undirected-edges"
    ELSE IF sort = 1 /\ ~(WF(rpid) /\ Sorted(rpid))                           THEN "not-sorted"
    ELSE IF sort = 0 /\ map # [k \in 1 .. n |-> k - 1]                        THEN "positions-moved"
    ELSE ""

\* reversing a root-to-tip path (PathReverser: a path is re-rooted at its tip): the same nodes in the opposite order, a chain again, every attribute
\* kept, the types of the two ends exchanged.  map: identity of the result's k-th node; the path is taken from the table (root need not be node 0)
RECURSIVE UpPath(_, _)
UpPath(P, i) == IF Par(P, i) = -1 THEN <<i>> ELSE <<i>> \o UpPath(P, Par(P, i))              \* tip first, root last
ReverseWhy(P, attr, i, map, rpid, rattr) ==
    LET want == UpPath(P, i)  n == Len(want) IN
    IF map # want                                                              THEN "path-nodes-or-order"
    ELSE IF Len(rpid) # n \/ Len(rattr) # n                                    THEN "lengths"
    ELSE IF rpid # [k \in 1 .. n |-> k - 2]                                     THEN "not-a-chain"
    ELSE IF \E k \in 1 .. n : rattr[k][1] # RedirType(attr, RootOf(P), i, map[k]) THEN "types"
    ELSE IF \E k \in 1 .. n : Tail(rattr[k]) # Tail(attr[map[k] + 1])           THEN "attributes"
    ELSE ""

\* the code's path reversal, for the algorithm layer
RedirectAlg(P, i) == [k \in 1 .. Len(P) |->
                        IF k - 1 = i THEN -1
                        ELSE IF k - 1 \in SAnc(P, i) THEN CHOOSE c \in Anc(P, i) : Par(P, c) = k - 1
                        ELSE P[k]]

\* ------------------------------ concatenation ----------------------------
Sub(p, q)  == <<p[1] - q[1], p[2] - q[2], p[3] - q[3]>>
Add(p, q)  == <<p[1] + q[1], p[2] + q[2], p[3] + q[3]>>
Zero3      == <<0, 0, 0>>
Delta(c)   == IF c.tr = 1 THEN Sub(c.pos1[c.i + 1], c.pos2[c.j + 1]) ELSE Zero3
Merged(c)  == Add(c.pos2[c.j + 1], Delta(c)) = c.pos1[c.i + 1]
Id1(k)     == <<1, k>>
Id2(k)     == <<2, k>>
CatNodes(c) == { Id1(k) : k \in Nodes(c.P1) } \cup { Id2(k) : k \in Nodes(c.P2) \ (IF Merged(c) THEN {c.j} ELSE {}) }
\* undirected edges of the result over identities
J2(c, k)   == IF Merged(c) /\ k = c.j THEN Id1(c.i) ELSE Id2(k)      \* the junction of tree 2 *is* node i of tree 1 when merged
CatEdges(c) == { {Id1(a), Id1(b)} : <<a, b>> \in { <<k, Par(c.P1, k)>> : k \in { q \in Nodes(c.P1) : Par(c.P1, q) # -1 } } }
          \cup { {J2(c, a), J2(c, b)} : <<a, b>> \in { <<k, Par(c.P2, k)>> : k \in { q \in Nodes(c.P2) : Par(c.P2, q) # -1 } } }
          \cup (IF Merged(c) THEN {} ELSE { {Id1(c.i), Id2(c.j)} })
\* o.ident[k] = identity <<tree, node>> of result node k-1; o.rpid; o.rty, o.rrad, o.rpos
CatWhy(c, o) ==
    LET n   == Len(o.ident)
        at(idn) == CHOOSE k \in 1 .. n : o.ident[k] = idn
        r2  == 0                                     \* root of tree 2 before re-rooting
        \* re-rooting exchanges the types of the old and the new root: nodes that were a root at some point (0, pre2, j) may carry each other's types
        Rooted == {r2, c.j} \cup (IF c.pre2 > 0 THEN {c.pre2} ELSE {})
        TyOK2(k, t) == IF k \in Rooted /\ Cardinality(Rooted) > 1 THEN t \in { c.ty2[x + 1] : x \in Rooted }
                       ELSE t = c.ty2[k + 1] IN
    IF ~Injective(o.ident) \/ Range(o.ident) # CatNodes(c)                    THEN "node-set"
    ELSE IF \E k \in 1 .. n : o.rpid[k] # -1 /\ o.rpid[k] \notin 0 .. n - 1   THEN "dangling-parent"
    ELSE IF { {o.ident[k], o.ident[o.rpid[k] + 1]} : k \in { q \in 1 .. n : o.rpid[q] # -1 } } # CatEdges(c) THEN "edges"
    ELSE IF ~(WF(o.rpid) /\ Sorted(o.rpid))                                   THEN "not-well-formed-sorted"
    ELSE IF \E k \in Nodes(c.P1) : LET q == at(Id1(k)) IN
               (IF Par(c.P1, k) = -1 THEN o.rpid[q] # -1 ELSE o.ident[o.rpid[q] + 1] # Id1(Par(c.P1, k)))  THEN "first-tree-reoriented"
    ELSE IF \E k \in Nodes(c.P1) : LET q == at(Id1(k)) IN
               o.rty[q] # c.ty1[k + 1] \/ o.rrad[q] # c.rad1[k + 1] \/ o.rpos[q] # c.pos1[k + 1]             THEN "first-tree-attributes"
    ELSE IF \E k \in Nodes(c.P2) : Id2(k) \in CatNodes(c) /\ LET q == at(Id2(k)) IN
               o.rrad[q] # c.rad2[k + 1] \/ o.rpos[q] # Add(c.pos2[k + 1], Delta(c))                          THEN "second-tree-geometry"
    ELSE IF \E k \in Nodes(c.P2) : Id2(k) \in CatNodes(c) /\ ~TyOK2(k, o.rty[at(Id2(k))])                    THEN "second-tree-types"
    ELSE IF o.src1changed # 0 \/ o.src2changed # 0                                                           THEN "input-modified"
    ELSE ""
=============================================================================
