CONSTANT MaxLen = 2
SPECIFICATION SpecSwallow
INVARIANT Loud
