-------------------------- MODULE MC_SortNodesAlg --------------------------
(***************************************************************************)
(* Algorithm layer for C05: sort_nodes_impl as the code does it — a stack  *)
(* of (old id, new parent id); every pop assigns the next new id, records  *)
(* id_map[new] = old and pushes the rows whose pid equals the popped old   *)
(* id (in row order); finally indices[new] = row of id_map[new].           *)
(* Checked for every single-rooted table over the id pools, every row      *)
(* order: result satisfies RelabelWhy = "", and the loop terminates.       *)
(***************************************************************************)
EXTENDS SortNodes, SequencesExt
CONSTANTS MaxN, Pools
VARIABLES ids, Q, stack, idmap, newp, pc

vars == <<ids, Q, stack, idmap, newp, pc>>
pids == PidsOf(ids, Q)
RowsWithPid(v) == SetToSortSeq({ k \in 1 .. Len(ids) : pids[k] = v }, <)      \* old_ids[old_pids == old_id], row order
InjSeqs(S, n) == { s \in [1 .. n -> S] : Injective(s) }

Init == /\ \E n \in 1 .. MaxN : \E S \in Pools : Q \in TableTopos(n) /\ ids \in InjSeqs(S, n)
        /\ stack = << <<ids[(CHOOSE k \in 1 .. Len(Q) : Q[k] = -1)], -1>> >>
        /\ idmap = <<>> /\ newp = <<>> /\ pc = "loop"

Pop == /\ pc = "loop" /\ stack # <<>>
       /\ LET top == stack[Len(stack)]
              new == Len(idmap)                     \* new_id
              ch  == RowsWithPid(top[1]) IN
          /\ idmap' = Append(idmap, top[1])
          /\ newp'  = Append(newp, top[2])
          /\ stack' = SubSeq(stack, 1, Len(stack) - 1) \o [k \in 1 .. Len(ch) |-> <<ids[ch[k]], new>>]
       /\ UNCHANGED <<ids, Q, pc>>
Finish == pc = "loop" /\ stack = <<>> /\ pc' = "done" /\ UNCHANGED <<ids, Q, stack, idmap, newp>>
Next == Pop \/ Finish \/ (pc = "done" /\ UNCHANGED vars)
Spec == Init /\ [][Next]_vars /\ WF_vars(Pop \/ Finish)

Indices == [k \in 1 .. Len(idmap) |-> PosOf(ids, idmap[k])]       \* new id -> old row
Cols    == [k \in 1 .. Len(ids) |-> <<"row", k>>]
Refines == pc = "done" =>
             RelabelWhy(ids, pids, Cols, Indices, [k \in 1 .. Len(ids) |-> k - 1], newp, [k \in 1 .. Len(ids) |-> Cols[Indices[k] + 1]]) = ""
Terminates == <>(pc = "done")
=============================================================================
