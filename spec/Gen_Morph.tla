------------------------------ MODULE Gen_Morph ------------------------------
(* lattice trees for C10 / C11: every sorted topology up to MaxN nodes (plus reversed numberings) x every assignment of parent-child offsets from Vecs *)
EXTENDS Morph, SequencesExt, Json, IOUtils
CONSTANTS MaxN, NV, BinN
AllVecs == << <<1, 0, 0>>, <<0, 0, 0>>, <<0, 2, 0>>, <<3, 4, 0>>, <<0, 0, -1>>, <<0, -3, 4>>, <<-2, 0, 0>> >>
Vecs == { AllVecs[k] : k \in 1 .. NV }
RECURSIVE PosAt(_, _, _)
PosAt(P, vs, i) == IF i = 0 THEN <<0, 0, 0>> ELSE LET p == PosAt(P, vs, Par(P, i)) IN <<p[1] + vs[i + 1][1], p[2] + vs[i + 1][2], p[3] + vs[i + 1][3]>>
PlaceAll(P, vs) == [k \in 1 .. Len(P) |-> PosAt(P, vs, k - 1)]
Shapes == UNION { SortedTopos(n) : n \in 1 .. MaxN } \cup { <<-1, 2, 0>>, <<-1, 3, 3, 0>>, <<-1, 2, 0, 2>> }      \* and a few numberings where a child precedes its parent
\* binary trees with two levels of bifurcation, for torque and the remote measures
BinShapes == IF BinN THEN { <<-1, 0, 0, 1, 1>>, <<-1, 0, 1, 1, 2, 2>>, <<-1, 0, 1, 2, 2, 1, 5, 5>>, <<-1, 0, 1, 1, 2, 3, 4, 4>> } ELSE {}
Trees == UNION { { [P |-> P, pos |-> PlaceAll(P, vs)] : vs \in [1 .. Len(P) -> Vecs] } : P \in Shapes }
         \cup UNION { { [P |-> P, pos |-> PlaceAll(P, [k \in 1 .. Len(P) |-> AllVecs[((k * m + k \div 3) % 7) + 1]])] : m \in 1 .. 6 } : P \in BinShapes }
\* paths and branches that come back to where they started (straight-line distance 0 at positive length), stems folded back onto the root
Back == { <<1, 0, 0>>, <<-1, 0, 0>>, <<0, 0, 0>> }
Returning == UNION { { [P |-> P, pos |-> PlaceAll(P, vs)] : vs \in [1 .. Len(P) -> Back] } : P \in { <<-1, 0, 1>>, <<-1, 0, 1, 2>>, <<-1, 0, 0, 1>>, <<-1, 0, 1, 1>> } }
Radii == << <<1, 2>>, <<1, 1>>, <<4, 1>>, <<9, 2>>, <<9, 1>>, <<25, 1>>, <<51, 2>>, <<0, 1>> >>            \* rho^2 = num/den: between lattice radii, and exactly on them where the root is exact
AllSeq == SetToSeq(Trees \cup Returning)
Numbered == [j \in 1 .. Len(AllSeq) |-> [cid |-> j, kind |-> "tree", radii |-> Radii, steps |-> 1 + (j % 5), motion |-> j % 8] @@ AllSeq[j]]
VARIABLE done
Init == done = ndJsonSerialize(IOEnv.OUT, Numbered)
Next == FALSE /\ UNCHANGED done
Emitted == done => PrintT(<<"CASES", Len(AllSeq)>>)
=============================================================================
