---------------------------- MODULE Judge_BigRec ----------------------------
(* Judge for C04 on large trees: one observation per line, each folded by Trace_BigRec *)
EXTENDS Trace_BigRec, Json, IOUtils
Cases == ndJsonDeserialize(IOEnv.CASES)
Obs   == ndJsonDeserialize(IOEnv.OBS)
VARIABLES l, bad
Init == l = 0 /\ bad = <<>>
Next == /\ l < Len(Obs)
        /\ l' = l + 1
        /\ LET o == Obs[l + 1]
               c == Cases[o.cid]
               w == IF o.err # "" THEN "raised-" \o o.err ELSE BigWhy(c.P, o.events) IN
           bad' = IF w = "" THEN bad ELSE Append(bad, <<o.cid, w>>)
Verdict == l = Len(Obs) => PrintT(<<"VERDICT", l, bad>>)
=============================================================================
